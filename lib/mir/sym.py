"""Symbolic executor for rustc MIR bodies -> z3 (engine M, DESIGN §2).

Path-forking execution with an incremental z3 solver kept in lock-step with the DFS (push at a
fork, pop when the subtree is exhausted).  Integers are mathematical `Int`s with the Rust range
of their type enforced at every operation that can leave it (wrap-around where MIR wraps,
overflow flag where MIR uses *WithOverflow); f64 is IEEE binary64 in z3's FP theory.
Calls to functions whose MIR is in the dump are inlined; everything else needs a *model*
(lib/mir/models.py) or is refused (MirUnsupported -> the obligation is inconclusive).
"""
import re
import sys
import time

import z3

from .parser import MirUnsupported, Place, Operand, Rvalue, split_top

sys.setrecursionlimit(20000)
import os as _os
_QLOG = bool(_os.environ.get("VERIF_QLOG"))

INT_TYPES = {
    "i8": (8, True), "i16": (16, True), "i32": (32, True), "i64": (64, True), "i128": (128, True), "isize": (64, True),
    "u8": (8, False), "u16": (16, False), "u32": (32, False), "u64": (64, False), "u128": (128, False), "usize": (64, False),
    "char": (32, False),
}


def ty_range(ty):
    bits, signed = INT_TYPES[ty]
    if signed:
        return -(1 << (bits - 1)), (1 << (bits - 1)) - 1
    return 0, (1 << bits) - 1


def in_range(e, ty):
    lo, hi = ty_range(ty)
    return z3.And(e >= lo, e <= hi)


def wrap(e, ty):
    """reduce an Int expression into the range of `ty` (two's complement wrap-around)."""
    bits, signed = INT_TYPES[ty]
    m = 1 << bits
    if z3.is_int_value(e):
        v = e.as_long() % m
        if signed and v >= m >> 1:
            v -= m
        return z3.IntVal(v)
    r = e % m
    if signed:
        r = z3.If(r >= (m >> 1), r - m, r)
    return r


def tdiv(a, b):
    """Rust integer division (truncating)"""
    if z3.is_int_value(a) and z3.is_int_value(b) and b.as_long() != 0:
        x, y = a.as_long(), b.as_long()
        q = abs(x) // abs(y)
        return z3.IntVal(q if (x >= 0) == (y >= 0) else -q)
    absdiv = lambda x, y: x / y  # z3 Int division is Euclidean: for y>0 and x>=0 it is floor
    return z3.If(a >= 0,
                 z3.If(b > 0, a / b, -(a / (-b))),
                 z3.If(b > 0, -((-a) / b), (-a) / (-b)))


def trem(a, b):
    return a - b * tdiv(a, b)


# ----------------------------------------------------------------------------- values


class Sc:
    """scalar: z3 Int / Bool / FP expression with its Rust type"""
    __slots__ = ("e", "ty", "bv")

    def __init__(self, e, ty, bv=None):
        self.e, self.ty, self.bv = e, ty, bv  # bv: optional bit-vector twin of an Int (FP conversions)

    def __repr__(self):
        return "Sc(%s:%s)" % (self.e, self.ty)


class Adt:
    """struct / tuple / array / closure environment"""
    __slots__ = ("kind", "ty", "fields")

    def __init__(self, kind, ty, fields):
        self.kind, self.ty, self.fields = kind, ty, tuple(fields)

    def __repr__(self):
        return "%s%r" % (self.ty or self.kind, self.fields)


class En:
    """enum value: discriminant expression + payload per possible variant"""
    __slots__ = ("ty", "disc", "alts")

    def __init__(self, ty, disc, alts):
        self.ty, self.disc, self.alts = ty, disc, alts  # alts: {variant name: tuple(fields)}

    def __repr__(self):
        return "En(%s disc=%s %r)" % (self.ty, self.disc, self.alts)


class Ref:
    __slots__ = ("cell", "projs")

    def __init__(self, cell, projs=()):
        self.cell, self.projs = cell, tuple(projs)

    def __repr__(self):
        return "Ref(%r%r)" % (self.cell, self.projs)


class StrV:
    """string / &str: `const` (python str) or a symbolic model described by `attrs`"""
    __slots__ = ("const", "attrs")

    def __init__(self, const=None, **attrs):
        self.const, self.attrs = const, attrs

    def __repr__(self):
        return "StrV(%r %r)" % (self.const, self.attrs)


class Opaque:
    """value of a modelled / uninterpreted type; `e` is a z3 expression or any python payload"""
    __slots__ = ("sort", "e", "info")

    def __init__(self, sort, e=None, info=None):
        self.sort, self.e, self.info = sort, e, info

    def __repr__(self):
        return "Opaque(%s %s %r)" % (self.sort, self.e, self.info)


class FnV:
    __slots__ = ("name", "captures", "span")

    def __init__(self, name, captures=(), span=None):
        self.name, self.captures, self.span = name, tuple(captures), span

    def __repr__(self):
        return "FnV(%s)" % (self.name or self.span)


class VecV:
    """Vec<T> / slice: symbolic length (Int) over a bounded tuple of items"""
    __slots__ = ("len", "items", "elem_ty")

    def __init__(self, length, items, elem_ty=None):
        self.len, self.items, self.elem_ty = length, tuple(items), elem_ty

    def __repr__(self):
        return "VecV(len=%s %r)" % (self.len, self.items)


UNIT = Adt("tuple", "()", ())
OPTION = {"None": 0, "Some": 1}
RESULT = {"Ok": 0, "Err": 1}
ORDERING = {"Less": -1, "Equal": 0, "Greater": 1}


def mk_bool(b):
    return Sc(z3.BoolVal(b) if isinstance(b, bool) else b, "bool")


def mk_int(v, ty):
    return Sc(z3.IntVal(v) if isinstance(v, int) else v, ty)


def some(v, ty="Option"):
    return En(ty, z3.IntVal(1), {"Some": (v,)})


def none(ty="Option"):
    return En(ty, z3.IntVal(0), {"None": ()})


def ok(v, ty="Result"):
    return En(ty, z3.IntVal(0), {"Ok": (v,)})


def err(v, ty="Result"):
    return En(ty, z3.IntVal(1), {"Err": (v,)})


def ordering(e):
    """e: Int expression in {-1,0,1}"""
    return En("Ordering", e, {"Less": (), "Equal": (), "Greater": ()})


# ----------------------------------------------------------------------------- state


class State:
    def __init__(self):
        self.cells = {}
        self.pc = []
        self.log = []  # events recorded by models (handler calls, havocs ...)
        self.visits = {}
        self.nframes = 0
        self.assumed = []
        self.aux = {}   # per-path memo of models (lazily created witnesses ...), shallow-copied at forks

    def fork(self):
        s = State.__new__(State)
        s.cells = dict(self.cells)
        s.pc = list(self.pc)
        s.log = list(self.log)
        s.visits = dict(self.visits)
        s.nframes = self.nframes
        s.assumed = list(self.assumed)
        s.aux = dict(self.aux)
        return s


class Outcome:
    def __init__(self, kind, st, value=None, msg=None):
        self.kind, self.st, self.value, self.msg = kind, st, value, msg  # kind: return | panic | unwound

    def __repr__(self):
        return "Outcome(%s %r %r)" % (self.kind, self.value, self.msg)


class Unwound(Exception):
    pass


class SolverProxy:
    """the incremental z3 solver of a run; `model()` can be overridden by the one-shot fallback of Exec.check (z3's incremental core
    answers `unknown` on some mixed integer/real queries that its one-shot pipeline decides at once)"""

    def __init__(self):
        self._s = z3.Solver()
        self._m = None

    def __getattr__(self, name):
        return getattr(self._s, name)

    def check(self, *args):
        self._m = None
        return self._s.check(*args)

    def model(self):
        return self._m if self._m is not None else self._s.model()


class Exec:
    def __init__(self, bodies, enums=None, models=None, unwind=8, timeout_ms=20000, crate_src=None):
        self.bodies = bodies
        self.enums = dict(enums or {})
        self.enums.setdefault("Option", OPTION)
        self.enums.setdefault("Result", RESULT)
        self.enums.setdefault("Ordering", ORDERING)
        self.models = list(models or [])
        self.unwind = unwind
        self.solver = SolverProxy()
        self.solver.set("timeout", timeout_ms)
        self.timeout_ms = timeout_ms
        self.cvc5_decided = 0
        self.deadline = None
        self.const_cache = {}
        self.merge_pat = None  # regex over body names whose calls are summarised by merging their return paths
        self.merged_calls = 0
        self.disambiguate = None  # fn(callee text, first body, caller body) -> Body for names printed for several bodies
        self.nfresh = 0
        self.ncell = 0
        self.queries = 0
        self.solver_time = 0.0
        self.havocs = []
        self.used_models = set()
        self.inlined = set()
        self.unknowns = 0
        self.crate_src = crate_src
        self._index_bodies()
        self.struct_fresh = {}  # type base name -> fn(ex, st, hint) -> value
        self.trace = False
        self.max_paths = 200000
        self.npaths = 0

    # ------------------------------------------------------------------ name resolution

    def _index_bodies(self):
        self.by_last = {}
        self.closure_by_span = {}
        self.impl_info = {}
        for name, b in self.bodies.items():
            segs = _path_segments(name)
            self.by_last.setdefault(segs[-1] if segs else name, []).append(b)
            if b.args:
                m = re.search(r"\{closure@([^}]*)\}", b.args[0][1])
                if m and "{closure#" in name:
                    self.closure_by_span[m.group(1).strip()] = b
        # impl headers are resolved lazily from the source (needs crate_src)

    def impl_header(self, b):
        """(self type base name, trait base name or None) for a body defined in `<impl at file:line>`"""
        if b.impl_at is None:
            return None
        if b.impl_at in self.impl_info:
            return self.impl_info[b.impl_at]
        info = None
        if self.crate_src:
            import os
            f, line, col = b.impl_at
            p = f if os.path.isabs(f) else os.path.join(self.crate_src, f)
            if os.path.exists(p):
                with open(p) as fh:
                    lines = fh.read().split("\n")
                txt = " ".join(lines[line - 1:line + 3])
                if "derive(" in lines[line - 1] and not lines[line - 1].lstrip().startswith("impl"):
                    tr = re.match(r"[A-Za-z_0-9:]+", lines[line - 1][col - 1:])
                    rest = "\n".join(lines[line - 1:line + 12])
                    tm = re.search(r"\b(?:struct|enum|union)\s+([A-Za-z_0-9]+)", rest)
                    if tr and tm:
                        info = (tm.group(1), _base_name(tr.group(0)), tm.group(1), tr.group(0))
                        self.impl_info[b.impl_at] = info
                        return info
                m = re.match(r"\s*(?:unsafe\s+)?impl(?:<[^>]*>)?\s+(.*?)\s*(?:where\b.*)?\{", txt)
                if m:
                    hdr = m.group(1)
                    if " for " in hdr:
                        tr, ty = hdr.split(" for ", 1)
                        info = (_base_name(ty), _base_name(tr), ty.strip(), tr.strip())
                    else:
                        info = (_base_name(hdr), None, hdr.strip(), None)
        self.impl_info[b.impl_at] = info
        return info

    def resolve(self, callee, crate=None):
        """call-site callee text -> Body or None; `crate` = crate of the calling body (free functions print without their module
        path, so two crates of a merged dump can both define `before`: the caller's own crate wins)"""
        if crate is not None and (crate + "::" + callee) in self.bodies:
            return self.bodies[crate + "::" + callee]
        if callee in self.bodies:
            b = self.bodies[callee]
            if crate is None or getattr(b, "crate", crate) == crate or not any(
                    getattr(x, "crate", None) == crate and x.name == b.name for x in self.by_last.get(_path_segments(callee)[-1] if _path_segments(callee) else callee, [])):
                return b
        c = callee.strip()
        # `<A as Trait>::method` / `<A as Trait<B>>::method`
        m = re.match(r"^<(.*) as (.*)>::([A-Za-z_0-9]+)(::<.*>)?$", c, re.S)
        if m:
            selfty, trait, meth = _base_name(m.group(1)), _base_name(m.group(2)), m.group(3)
            full_self, full_trait = _norm_ty(m.group(1)), _norm_ty(m.group(2))
            cands = []
            for b in self.by_last.get(meth, []):
                ih = self.impl_header(b)
                if ih and ih[0] == selfty and ih[1] == trait:
                    cands.append((b, ih))
            if len(cands) > 1:
                ex = [b for b, ih in cands if _norm_ty(ih[2]) == full_self and _norm_ty(ih[3]) == full_trait]
                if len(ex) == 1:
                    return ex[0]
                ex = [b for b, ih in cands if _norm_ty(ih[3]) == full_trait]
                if len(ex) == 1:
                    return ex[0]
                if "<" not in full_trait:  # `<T as PartialOrd>::..` = the default type parameter: `impl PartialOrd<T> for T` (or no parameter at all)
                    ex = [b for b, ih in cands if _norm_ty(ih[3]) in (full_trait, "%s<%s>" % (full_trait, full_self), "%s<Self>" % full_trait)]
                    if len(ex) == 1:
                        return ex[0]
                raise MirUnsupported("ambiguous callee %s: %s" % (callee, [b.name for b, _ in cands]))
            return cands[0][0] if cands else None
        segs = _path_segments(c)
        if not segs:
            return None
        meth = segs[-1]
        cands = self.by_last.get(meth, [])
        if len(segs) == 1:
            ex = [b for b in cands if b.name == meth or b.name.endswith("::" + meth) and b.impl_at is None]
            if len(ex) > 1 and crate is not None:
                same = [b for b in ex if getattr(b, "crate", None) == crate]
                ex = same or ex
            if len(ex) == 1:
                return ex[0]
            ex2 = [b for b in ex if b.name == meth]
            return ex2[0] if len(ex2) == 1 else None
        owner = segs[-2]
        out = []
        for b in cands:
            bsegs = _path_segments(b.name)
            if b.impl_at is not None:
                ih = self.impl_header(b)
                if ih and ih[0] == owner and ih[1] is None and "{closure" not in bsegs[-1]:
                    out.append(b)
            elif len(bsegs) >= 2 and bsegs[-2] == owner:
                out.append(b)
        if len(out) == 1:
            return out[0]
        if len(out) > 1:
            raise MirUnsupported("ambiguous callee %s: %s" % (callee, [b.name for b in out]))
        return None

    # ------------------------------------------------------------------ solver helpers

    def fresh_name(self, hint="v"):
        self.nfresh += 1
        return "%s!%d" % (hint, self.nfresh)

    def fresh_int(self, st, ty, hint="v", constrain=True):
        e = z3.Int(self.fresh_name(hint))
        if constrain:
            self.assume(st, in_range(e, ty))
        return Sc(e, ty)

    def fresh_bool(self, hint="b"):
        return Sc(z3.Bool(self.fresh_name(hint)), "bool")

    def assume(self, st, cond):
        """add a constraint to the current path without forking (models' range facts)"""
        st.pc.append(cond)
        st.assumed.append(cond)
        self.solver.add(cond)

    def check(self, extra=None):
        t = time.time()
        if self.deadline is not None and t > self.deadline:
            raise MirUnsupported("wall-clock budget of this obligation exhausted after %d queries" % self.queries)
        self.queries += 1
        args = [extra] if extra is not None else []
        fast = min(self.timeout_ms, 3000)
        self.solver.set("timeout", fast)
        r = self._guarded_check(args, fast)
        self.solver.set("timeout", self.timeout_ms)
        if r == z3.unknown:
            r = self._oneshot(extra)
        if r == z3.unknown and fast < self.timeout_ms:
            r = self._guarded_check(args, self.timeout_ms)
        if r == z3.unknown:
            # z3's arithmetic heuristics are seed-sensitive on mod/div-heavy queries: retry, then ask cvc5 for `unsat`
            for seed in (7, 23):
                self.solver.set("random_seed", seed)
                self.solver.set("timeout", self.timeout_ms * 2)
                r = self._guarded_check(args, self.timeout_ms * 2)
                if r != z3.unknown:
                    break
            self.solver.set("timeout", self.timeout_ms)
            self.solver.set("random_seed", 0)
            if r == z3.unknown and self._cvc5_unsat(extra):
                r = z3.unsat
                self.cvc5_decided += 1
        self.solver_time += time.time() - t
        if r == z3.unknown:
            self.unknowns += 1
        if _QLOG and time.time() - t > 3:
            try:
                s2 = z3.Solver()
                for a_ in self.solver.assertions():
                    s2.add(a_)
                if extra is not None:
                    s2.add(extra)
                with open("/tmp/qlog_%d_%d.smt2" % (_os.getpid(), self.queries), "w") as fh_:
                    fh_.write(s2.to_smt2())
            except Exception:
                pass
            sys.stderr.write("[qlog] %.1fs %s cvc5=%d extra=%s\n" % (time.time() - t, r, self.cvc5_decided, str(extra)[:600].replace("\n", " ")))
        return r

    def _oneshot(self, extra):
        """the same query in a fresh, non-incremental solver (different preprocessing); a `sat` model is kept for model()"""
        import threading
        try:
            s2 = z3.Solver()
            s2.set("timeout", self.timeout_ms)
            for a in self.solver.assertions():
                s2.add(a)
            if extra is not None:
                s2.add(extra)
            timer = threading.Timer(self.timeout_ms / 1000.0 * 1.5 + 2, s2.ctx.interrupt)
            timer.start()
            try:
                r = s2.check()
            finally:
                timer.cancel()
            if r == z3.sat:
                self.solver._m = s2.model()
            if r != z3.unknown:
                self.oneshot_decided = getattr(self, "oneshot_decided", 0) + 1
            return r
        except z3.Z3Exception:
            return z3.unknown

    def check_once(self, extra, ms):
        """one solver call with its own time limit, no retries (witness selection, never a verdict)"""
        t = time.time()
        self.queries += 1
        self.solver.set("timeout", ms)
        try:
            return self._guarded_check([extra] if extra is not None else [], ms)
        finally:
            self.solver.set("timeout", self.timeout_ms)
            self.solver_time += time.time() - t

    def _guarded_check(self, args, ms):
        """solver.check with a watchdog: z3 does not always honour its own timeout (bv2int / nonlinear cores)"""
        import threading
        ctx = self.solver.ctx
        timer = threading.Timer(ms / 1000.0 * 1.5 + 2, ctx.interrupt)
        timer.start()
        try:
            return self.solver.check(*args)
        except z3.Z3Exception:
            return z3.unknown
        finally:
            timer.cancel()

    def _cvc5_unsat(self, extra):
        import subprocess
        import tempfile
        try:
            s2 = z3.Solver()
            for a in self.solver.assertions():
                s2.add(a)
            if extra is not None:
                s2.add(extra)
            txt = "(set-logic ALL)\n" + s2.to_smt2()
            with tempfile.NamedTemporaryFile("w", suffix=".smt2", delete=False) as f:
                f.write(txt)
                path = f.name
            p = subprocess.run(["cvc5", "--lang", "smt2", "--tlimit=%d" % (self.timeout_ms * 2), path], stdout=subprocess.PIPE,
                               stderr=subprocess.PIPE, timeout=self.timeout_ms / 500 + 10)
            import os
            os.unlink(path)
            out = p.stdout.decode()
            return out.strip().split("\n")[0] == "unsat" and "(error" not in out
        except Exception:
            return False

    def branch(self, st, cond):
        """generator: yields a forked state under `cond` if feasible; keeps solver stack in step"""
        c = z3.simplify(cond) if not isinstance(cond, bool) else z3.BoolVal(cond)
        if z3.is_false(c):
            return
        self.solver.push()
        try:
            self.solver.add(c)
            if z3.is_true(c) or self.check() != z3.unsat:
                st2 = st.fork()
                if not z3.is_true(c):
                    st2.pc.append(c)
                yield st2
        finally:
            self.solver.pop()

    def scope(self, st):
        """generator: push/pop around a sub-exploration that adds assumes"""
        self.solver.push()
        try:
            yield st.fork()
        finally:
            self.solver.pop()

    def enum_values(self, st, e, limit=64):
        """generator of (forked state, k) for every feasible concrete value k of Int expression e on this path"""
        c = self.concrete(e)
        if c is not None:
            yield st, c
            return
        seen = []
        while True:
            self.solver.push()
            try:
                for k in seen:
                    self.solver.add(e != k)
                r = self.check()
                if r != z3.sat:
                    if r == z3.unknown:
                        raise MirUnsupported("solver gave up while enumerating values of %s" % e)
                    return
                k = self.solver.model().eval(e, model_completion=True).as_long()
            finally:
                self.solver.pop()
            seen.append(k)
            if len(seen) > limit:
                raise MirUnsupported("more than %d feasible values for %s" % (limit, e))
            for st2 in self.branch(st, e == k):
                yield st2, k

    def must(self, cond):
        """True iff `cond` holds on every model of the current path"""
        return self.check(z3.Not(cond)) == z3.unsat

    def decided(self, b):
        """True / False if the current path fixes the Bool `b`, else None"""
        b = z3.simplify(b)
        if z3.is_true(b):
            return True
        if z3.is_false(b):
            return False
        if self._guarded_check([z3.Not(b)], self.timeout_ms) == z3.unsat:
            return True
        if self._guarded_check([b], self.timeout_ms) == z3.unsat:
            return False
        return None

    def concrete(self, e):
        e = z3.simplify(e)
        if z3.is_int_value(e):
            return e.as_long()
        if z3.is_true(e):
            return True
        if z3.is_false(e):
            return False
        return None

    # ------------------------------------------------------------------ memory

    def new_cell(self, st, v, tag="h"):
        self.ncell += 1
        c = (tag, self.ncell)
        st.cells[c] = v
        return c

    def read(self, st, cell, projs):
        v = st.cells.get(cell)
        if v is None and cell not in st.cells:
            raise MirUnsupported("read of uninitialised cell %r" % (cell,))
        return self._read(st, v, projs, 0)

    def _read(self, st, v, projs, i):
        while i < len(projs):
            p = projs[i]
            k = p[0]
            if k == "field":
                if isinstance(v, Ref) and len(p) > 2 and p[2] and p[2].startswith(("std::ptr::Unique<", "std::ptr::NonNull<")):
                    pass  # Box<T> is modelled as a reference to its heap cell: Box.0 (Unique) .0 (NonNull) is that pointer
                elif isinstance(v, Adt):
                    v = v.fields[p[1]]
                elif isinstance(v, Opaque) and v.sort == "FeelNumber" and p[1] == 0:
                    pass  # FeelNumber(DecQuad): the number model stands for its decimal payload too
                elif isinstance(v, tuple):  # downcast payload
                    v = v[p[1]]
                elif isinstance(v, Ref) and v.projs == () and isinstance(st.cells.get(v.cell), Adt) and False:
                    v = st.cells[v.cell].fields[p[1]]
                elif isinstance(v, VecV) and p[1] in (0, 1):
                    raise MirUnsupported("field of Vec model")
                else:
                    raise MirUnsupported("field %d of %r" % (p[1], v))
            elif k == "downcast":
                if not isinstance(v, En):
                    raise MirUnsupported("downcast of %r" % (v,))
                if p[1] not in v.alts:
                    raise MirUnsupported("downcast to %s not among alternatives %s of %s" % (p[1], list(v.alts), v.ty))
                v = v.alts[p[1]]
            elif k == "deref":
                if isinstance(v, Ref):
                    v = self.read(st, v.cell, v.projs)
                else:
                    raise MirUnsupported("deref of %r" % (v,))
            elif k == "index":
                idx = p[1]
                if not isinstance(idx, int):
                    raise MirUnsupported("symbolic index not concretised")
                v = self._seq_items(v)[idx]
            elif k == "constindex":
                items = self._seq_items(v)
                v = items[-p[1] if p[2] else p[1]]
            else:
                raise MirUnsupported("projection %r" % (p,))
            i += 1
        return v

    def _seq_items(self, v):
        if isinstance(v, VecV):
            return v.items
        if isinstance(v, Adt) and v.kind == "array":
            return v.fields
        raise MirUnsupported("indexing into %r" % (v,))

    def write(self, st, cell, projs, val):
        # follow derefs first so the update is applied to the owning cell
        for i, p in enumerate(projs):
            if p[0] == "deref":
                r = self.read(st, cell, projs[:i])
                if not isinstance(r, Ref):
                    raise MirUnsupported("write through non-ref %r" % (r,))
                return self.write(st, r.cell, r.projs + tuple(projs[i + 1:]), val)
        if not projs:
            st.cells[cell] = val
            return
        st.cells[cell] = self._update(st.cells.get(cell), projs, 0, val)

    def _update(self, v, projs, i, val):
        if i == len(projs):
            return val
        p = projs[i]
        k = p[0]
        if k == "field":
            if isinstance(v, Adt):
                f = list(v.fields)
                f[p[1]] = self._update(f[p[1]], projs, i + 1, val)
                return Adt(v.kind, v.ty, f)
            if isinstance(v, tuple):
                f = list(v)
                f[p[1]] = self._update(f[p[1]], projs, i + 1, val)
                return tuple(f)
            if v is None:
                raise MirUnsupported("field write into uninitialised aggregate")
            raise MirUnsupported("field write into %r" % (v,))
        if k == "downcast":
            if not isinstance(v, En) or p[1] not in v.alts:
                raise MirUnsupported("downcast write into %r" % (v,))
            alts = dict(v.alts)
            alts[p[1]] = self._update(alts[p[1]], projs, i + 1, val)
            return En(v.ty, v.disc, alts)
        if k == "index":
            if isinstance(v, VecV):
                it = list(v.items)
                it[p[1]] = self._update(it[p[1]], projs, i + 1, val)
                return type(v)(v.len, it, v.elem_ty)   # keeps map models (subclasses of VecV) what they are
            if isinstance(v, Adt):
                f = list(v.fields)
                f[p[1]] = self._update(f[p[1]], projs, i + 1, val)
                return Adt(v.kind, v.ty, f)
        raise MirUnsupported("write projection %r into %r" % (p, v))

    # ------------------------------------------------------------------ places / operands

    def resolve_place(self, st, frame, place):
        """-> (cell, projs) with index locals replaced by concrete ints"""
        cell = (frame, place.local)
        projs = []
        for p in place.projs:
            if p[0] == "index":
                iv = st.cells.get((frame, p[1]))
                c = self.concrete(iv.e) if isinstance(iv, Sc) else None
                if c is None:
                    raise MirUnsupported("symbolic index (local _%d) not concretised" % p[1])
                projs.append(("index", c))
            elif p[0] == "deref":
                r = self.read(st, cell, tuple(projs))
                if isinstance(r, Ref):
                    cell, projs = r.cell, list(r.projs)
                else:
                    raise MirUnsupported("deref of non-reference %r in %r" % (r, place))
            else:
                projs.append(p)
        return cell, tuple(projs)

    def eval_place(self, st, frame, place):
        cell, projs = self.resolve_place(st, frame, place)
        return self.read(st, cell, projs)

    def eval_operand(self, st, frame, op, ty_hint=None):
        if op.kind in ("copy", "move"):
            return self.eval_place(st, frame, op.place)
        if op.kind == "const":
            return self.eval_const(st, op.const, ty_hint)
        if op.kind == "raw" and re.match(r"^[A-Za-z_<][A-Za-z0-9_:<>, '&()\[\];*]*$", op.const) and "(" not in op.const.split("<", 1)[0]:
            return self._fn_value(op.const)  # a function item passed by name (e.g. `ok_or_else(.., err_pop)`)
        raise MirUnsupported("operand %r" % (op,))

    def eval_const(self, st, c, ty_hint=None):
        c = c.strip()
        if c == "true":
            return mk_bool(True)
        if c == "false":
            return mk_bool(False)
        m = re.match(r"^(-?[0-9_]+)_(i8|i16|i32|i64|i128|isize|u8|u16|u32|u64|u128|usize)$", c)
        if m:
            return mk_int(int(m.group(1).replace("_", "")), m.group(2))
        m = re.match(r"^(?:core::num::<impl )?(i8|i16|i32|i64|i128|isize|u8|u16|u32|u64|u128|usize)>?::(MIN|MAX)$", c)
        if m:
            lo, hi = ty_range(m.group(1))
            return mk_int(lo if m.group(2) == "MIN" else hi, m.group(1))
        m = re.match(r"^(-?[0-9][0-9_.]*(?:[eE][+-]?[0-9]+)?)f64$", c)
        if m:
            return Sc(z3.FPVal(float(m.group(1).replace("_", "")), z3.Float64()), "f64")
        if c.startswith('"') and c.endswith('"'):
            return StrV(_unescape(c[1:-1]))
        if c.startswith('b"') and c.endswith('"'):
            return Opaque("bytes", info=c[2:-1])
        m = re.match(r"^'(.*)'$", c, re.S)
        if m:
            mu = re.match(r"^\\u\{([0-9a-fA-F]+)\}$", m.group(1))
            if mu:
                return mk_int(int(mu.group(1), 16), "char")
            ch = _unescape(m.group(1))
            return mk_int(ord(ch), "char")
        if c == "()":
            return UNIT
        m = re.match(r"^\{alloc\d+: &(.*)\}$", c)
        if m:
            return Ref(("static", m.group(1).strip()))
        m = re.match(r"^ZeroSized: (.*)$", c) or re.match(r"^\{zero-sized\}: (.*)$", c)
        if m:
            return self._fn_value(m.group(1))
        # named constant or promoted: evaluate its MIR body
        b = self.bodies.get(c) or self._resolve_const(c)
        if b is not None and b.kind in ("const", "promoted", "static"):
            if b.name in self.const_cache:
                return self.const_cache[b.name]
            outs = [o for o in self.run_body(st, b, [])]
            rets = [o for o in outs if o.kind == "return"]
            if len(rets) != 1:
                raise MirUnsupported("const body %s has %d outcomes" % (c, len(outs)))
            if not _has_ref(rets[0].value):
                self.const_cache[b.name] = rets[0].value
            return rets[0].value
        segs = _path_segments(c)
        if len(segs) >= 2 and _strip_generics(segs[-2]) in self.enums and segs[-1] in self.enums[_strip_generics(segs[-2])]:
            ety = _strip_generics(segs[-2])
            return En(ety, z3.IntVal(self.enums[ety][segs[-1]]), {segs[-1]: ()})
        if len(segs) == 1 and ty_hint and _base_name(ty_hint) in self.enums and segs[0] in self.enums[_base_name(ty_hint)]:
            ety = _base_name(ty_hint)
            return En(ety, z3.IntVal(self.enums[ety][segs[0]]), {segs[0]: ()})
        fb = None
        try:
            fb = self.resolve(c)
        except MirUnsupported:
            pass
        if fb is not None:
            return FnV(fb.name)
        if re.match(r"^[A-Za-z_<{].*$", c):
            return self._fn_value(c)
        raise MirUnsupported("constant %s" % c)

    def _fn_value(self, t):
        t = t.strip()
        m = re.search(r"\{closure@([^}]*)\}", t)
        if m and m.group(1).strip() in self.closure_by_span:
            return FnV(self.closure_by_span[m.group(1).strip()].name, span=m.group(1).strip())
        t = re.sub(r"^fn\((.*)\) -> .* \{(.*)\}$", r"\2", t)
        return FnV(t)

    def _resolve_const(self, c):
        segs = _path_segments(c)
        if not segs:
            return None
        last = segs[-1]
        cands = [b for b in self.by_last.get(last, []) if b.kind in ("const", "promoted", "static")]
        if "promoted[" in last and len(segs) >= 2:
            cands = [b for b in cands if len(_path_segments(b.name)) >= 2 and _path_segments(b.name)[-2] == segs[-2]]
            if len(cands) > 1 and len(segs) >= 3:
                owner = segs[-3]
                c2 = []
                for b in cands:
                    ih = self.impl_header(b)
                    bs = _path_segments(b.name)
                    if (ih and ih[0] == owner) or (len(bs) >= 3 and bs[-3] == owner):
                        c2.append(b)
                cands = c2 or cands
        if len(cands) > 1:
            # longest common suffix of path segments wins (call sites carry a module prefix the definitions lack)
            def common(b):
                bs = _path_segments(b.name)
                n = 0
                while n < len(bs) and n < len(segs) and bs[-1 - n] == segs[-1 - n]:
                    n += 1
                return n
            best = max(common(b) for b in cands)
            cands = [b for b in cands if common(b) == best]
        if len(cands) == 1:
            return cands[0]
        if len(cands) > 1:
            ex = [b for b in cands if b.name == c]
            if len(ex) == 1:
                return ex[0]
            raise MirUnsupported("ambiguous constant %s: %s" % (c, [b.name for b in cands][:6]))
        return None

    # ------------------------------------------------------------------ rvalues

    def binop(self, st, op, a, b):
        if isinstance(a, Sc) and isinstance(b, Sc):
            ty = a.ty
            if ty == "f64":
                return self._fbinop(op, a, b)
            if ty == "bool":
                x, y = a.e, b.e
                if op == "BitAnd":
                    return mk_bool(z3.And(x, y))
                if op == "BitOr":
                    return mk_bool(z3.Or(x, y))
                if op == "BitXor":
                    return mk_bool(z3.Xor(x, y))
                if op == "Eq":
                    return mk_bool(x == y)
                if op == "Ne":
                    return mk_bool(x != y)
                raise MirUnsupported("bool binop " + op)
            x, y = a.e, b.e
            if op in ("Eq", "Ne", "Lt", "Le", "Gt", "Ge"):
                r = {"Eq": x == y, "Ne": x != y, "Lt": x < y, "Le": x <= y, "Gt": x > y, "Ge": x >= y}[op]
                return mk_bool(z3.simplify(r))
            if op == "Cmp":
                return ordering(z3.If(x < y, z3.IntVal(-1), z3.If(x == y, z3.IntVal(0), z3.IntVal(1))))
            if op in ("Add", "Sub", "Mul", "AddUnchecked", "SubUnchecked", "MulUnchecked"):
                r = {"A": x + y, "S": x - y, "M": x * y}[op[0]]
                return Sc(z3.simplify(wrap(r, ty)), ty)
            if op in ("AddWithOverflow", "SubWithOverflow", "MulWithOverflow"):
                r = {"A": x + y, "S": x - y, "M": x * y}[op[0]]
                r = z3.simplify(r)
                ovf = z3.simplify(z3.Not(in_range(r, ty)))
                # hidden third field: the exact result; once the overflow `assert` has passed it
                # replaces the wrapped one (they are equal there), which keeps terms linear
                return Adt("tuple", "__ovf__", (Sc(z3.simplify(wrap(r, ty)), ty), mk_bool(ovf), Sc(r, ty)))
            if op == "Div":
                return Sc(z3.simplify(wrap(tdiv(x, y), ty)), ty)
            if op == "Rem":
                return Sc(z3.simplify(trem(x, y)), ty)
            if op in ("Shl", "Shr", "ShlUnchecked", "ShrUnchecked"):
                k = self.concrete(y)
                if k is None:
                    raise MirUnsupported("shift by symbolic amount")
                bits, _ = INT_TYPES[ty]
                k %= bits
                if op.startswith("Shl"):
                    return Sc(z3.simplify(wrap(x * (1 << k), ty)), ty)
                # arithmetic shift right = floor division
                return Sc(z3.simplify(x / (1 << k) if True else x), ty)
            if op in ("BitAnd", "BitOr", "BitXor"):
                bits, signed = INT_TYPES[ty]
                cx, cy = self.concrete(x), self.concrete(y)
                if op == "BitAnd" and cy is not None and cy >= 0 and (cy & (cy + 1)) == 0 and not signed:
                    return Sc(z3.simplify(x % (cy + 1)), ty)  # mask with 2^k-1
                bx, by = z3.Int2BV(x, bits), z3.Int2BV(y, bits)
                r = {"BitAnd": bx & by, "BitOr": bx | by, "BitXor": bx ^ by}[op]
                return Sc(z3.simplify(z3.BV2Int(r, signed)), ty)
            raise MirUnsupported("int binop " + op)
        if isinstance(a, En) and isinstance(b, En) and op in ("Eq", "Ne"):
            r = a.disc == b.disc
            return mk_bool(r if op == "Eq" else z3.Not(r))
        raise MirUnsupported("binop %s on %r, %r" % (op, a, b))

    def _fbinop(self, op, a, b):
        rm = z3.RNE()
        x, y = a.e, b.e
        if op == "Add":
            return Sc(z3.fpAdd(rm, x, y), "f64")
        if op == "Sub":
            return Sc(z3.fpSub(rm, x, y), "f64")
        if op == "Mul":
            return Sc(z3.fpMul(rm, x, y), "f64")
        if op == "Div":
            return Sc(z3.fpDiv(rm, x, y), "f64")
        if op == "Eq":
            return mk_bool(z3.fpEQ(x, y))
        if op == "Ne":
            return mk_bool(z3.Not(z3.fpEQ(x, y)))
        if op == "Lt":
            return mk_bool(z3.fpLT(x, y))
        if op == "Le":
            return mk_bool(z3.fpLEQ(x, y))
        if op == "Gt":
            return mk_bool(z3.fpGT(x, y))
        if op == "Ge":
            return mk_bool(z3.fpGEQ(x, y))
        raise MirUnsupported("f64 binop " + op)

    def cast(self, st, v, ty, kind):
        ty = ty.strip()
        if kind == "IntToInt":
            if isinstance(v, En):  # C-like enum to integer
                return Sc(z3.simplify(wrap(v.disc, ty)), ty)
            src = v.ty
            if src == "bool":
                return Sc(z3.If(v.e, z3.IntVal(1), z3.IntVal(0)), ty)
            lo, hi = ty_range(ty)
            if src in INT_TYPES:
                slo, shi = ty_range(src)
                if slo >= lo and shi <= hi:
                    return Sc(v.e, ty)
            return Sc(z3.simplify(wrap(v.e, ty)), ty)
        if kind == "IntToFloat":
            bits, signed = INT_TYPES[v.ty]
            return Sc(z3.fpToFP(z3.RNE(), z3.ToReal(v.e), z3.Float64()), "f64")
        if kind == "FloatToInt":
            bits, signed = INT_TYPES[ty]
            lo, hi = ty_range(ty)
            x = v.e
            F = z3.Float64()
            # Rust `as`: saturating, NaN -> 0, truncation toward zero.  Kept in the bit-vector/FP theories
            # (Int <-> FP through reals is far slower); the Int view is BV2Int of the result.
            bvs = z3.BitVecSort(bits)
            conv = z3.fpToSBV(z3.RTZ(), x, bvs) if signed else z3.fpToUBV(z3.RTZ(), x, bvs)
            lo_fp = z3.FPVal(float(lo), F)
            r = z3.If(z3.fpIsNaN(x), z3.BitVecVal(0, bits),
                      z3.If(z3.fpLT(x, lo_fp), z3.BitVecVal(lo, bits),
                            z3.If(z3.fpGEQ(x, z3.FPVal(float(hi + 1), F)), z3.BitVecVal(hi, bits), conv)))
            return Sc(z3.BV2Int(r, signed), ty, bv=r)
        if kind.startswith("PointerCoercion") or kind in ("PtrToPtr", "Transmute") and isinstance(v, Ref):
            return v
        raise MirUnsupported("cast %s of %r to %s" % (kind, v, ty))

    def variant_index(self, enum_ty, variant):
        base = _base_name(enum_ty)
        d = self.enums.get(base)
        if d is None or variant not in d:
            raise MirUnsupported("unknown enum variant %s::%s" % (base, variant))
        return d[variant]

    def make_adt(self, st, frame, path, fields, dest_ty=None):
        """`Path(args)`: tuple struct or enum variant constructor"""
        p = path.strip()
        segs = _path_segments(p)
        if len(segs) == 1 and dest_ty:
            ety = _base_name(dest_ty)
            if ety in self.enums and segs[0] in self.enums[ety]:  # bare variant name (`Equal`, `Less`): the destination type tells the enum
                return En(ety, z3.IntVal(self.enums[ety][segs[0]]), {segs[0]: tuple(fields)})
        # enum variant?  Enum::<..>::Variant  /  Enum::Variant
        if len(segs) >= 2 and _strip_generics(segs[-2]) in self.enums and segs[-1] in self.enums[_strip_generics(segs[-2])]:
            ety = _strip_generics(segs[-2])
            return En(ety, z3.IntVal(self.enums[ety][segs[-1]]), {segs[-1]: tuple(fields)})
        return Adt("struct", _strip_generics(segs[-1]) if segs else p, fields)

    def eval_rvalue(self, st, frame, rv, dest_ty=None):
        k = rv.kind
        if k == "use":
            return self.eval_operand(st, frame, rv.a, dest_ty)
        if k == "ref":
            cell, projs = self.resolve_place(st, frame, rv.a)
            return Ref(cell, projs)
        if k == "binop":
            return self.binop(st, rv.a, self.eval_operand(st, frame, rv.b), self.eval_operand(st, frame, rv.c))
        if k == "unop":
            v = self.eval_operand(st, frame, rv.b)
            if rv.a == "Not":
                if v.ty == "bool":
                    return mk_bool(z3.simplify(z3.Not(v.e)))
                lo, hi = ty_range(v.ty)
                return Sc(z3.simplify((hi - v.e) if lo == 0 else (-v.e - 1)), v.ty)
            if rv.a == "Neg":
                if v.ty == "f64":
                    return Sc(z3.fpNeg(v.e), "f64")
                return Sc(z3.simplify(wrap(-v.e, v.ty)), v.ty)
            if rv.a == "PtrMetadata":
                tgt = self.read(st, v.cell, v.projs) if isinstance(v, Ref) else v
                if isinstance(tgt, VecV):
                    return Sc(tgt.len, "usize")
                if isinstance(tgt, Adt) and tgt.kind == "array":
                    return mk_int(len(tgt.fields), "usize")
            raise MirUnsupported("unop %s on %r" % (rv.a, v))
        if k == "cast":
            return self.cast(st, self.eval_operand(st, frame, rv.a), rv.b, rv.c)
        if k == "discriminant":
            v = self.eval_place(st, frame, rv.a)
            if isinstance(v, En):
                return Sc(v.disc, dest_ty if dest_ty in INT_TYPES else "isize")
            raise MirUnsupported("discriminant of %r" % (v,))
        if k == "len":
            v = self.eval_place(st, frame, rv.a)
            if isinstance(v, VecV):
                return Sc(v.len, "usize")
            if isinstance(v, Adt) and v.kind == "array":
                return mk_int(len(v.fields), "usize")
            raise MirUnsupported("Len of %r" % (v,))
        if k == "aggregate":
            if rv.a == "tuple":
                return Adt("tuple", None, [self.eval_operand(st, frame, o) for o in rv.c])
            if rv.a == "array":
                return Adt("array", None, [self.eval_operand(st, frame, o) for o in rv.c])
            if rv.a == "adt":
                return self.make_adt(st, frame, rv.b, [self.eval_operand(st, frame, o) for o in rv.c], dest_ty)
            if rv.a == "adt_named":
                # field order in MIR pretty-printer follows declaration order
                v = self.make_adt(st, frame, rv.b, [self.eval_operand(st, frame, o) for _, o in rv.c], dest_ty)
                return v
        if k == "repeat":
            n = int(re.sub(r"[^0-9]", "", rv.b.split("_")[0]) or 0)
            v = self.eval_operand(st, frame, rv.a)
            return Adt("array", None, [v] * n)
        if k == "closure":
            span = rv.a
            b = self.closure_by_span.get(span)
            caps = []
            t = rv.b.strip()
            if t.startswith("{"):
                inner = t[1:-1].strip()
                for it in split_top(inner):
                    if ":" in it:
                        caps.append(self.eval_operand(st, frame, _parse_op(it.split(":", 1)[1])))
            elif t.startswith("("):
                inner = t[1:-1].strip()
                for it in split_top(inner):
                    caps.append(self.eval_operand(st, frame, _parse_op(it)))
            return FnV(b.name if b else None, caps, span)
        raise MirUnsupported("rvalue %s" % (rv.raw,))

    # ------------------------------------------------------------------ execution

    def run(self, fname, args, st=None):
        """generator of Outcome for body `fname` (definition name) with argument values"""
        st = st or State()
        b = self.bodies.get(fname) or self.resolve(fname)
        if b is None:
            raise MirUnsupported("no MIR body for %s" % fname)
        yield from self.run_body(st, b, args)

    def run_body(self, st, body, args):
        st.nframes += 1
        frame = ("f", st.nframes, body.name)
        self.inlined.add(body.name)
        if len(args) != len(body.args):
            # closures called through Fn::call get (env, (args...)) – spread the tuple
            if len(body.args) >= 1 and len(args) == 2 and isinstance(args[1], Adt) and args[1].kind == "tuple" and \
                    len(args[1].fields) == len(body.args) - 1:
                args = [args[0]] + list(args[1].fields)
            else:
                raise MirUnsupported("arity mismatch calling %s: %d vs %d" % (body.name, len(args), len(body.args)))
        for (idx, _ty), v in zip(body.args, args):
            st.cells[(frame, idx)] = v
        for o in self.run_from(st, body, frame, "bb0"):
            yield o

    def run_from(self, st, body, frame, bb):
        while True:
            key = (frame, bb)
            n = st.visits.get(key, 0) + 1
            st.visits[key] = n
            if n > self.unwind:
                yield Outcome("unwound", st, msg="%s %s visited more than %d times" % (body.name, bb, self.unwind))
                return
            if bb not in body.blocks:
                raise MirUnsupported("missing block %s in %s" % (bb, body.name))
            stmts, term = body.blocks[bb]
            # statements (may fork on symbolic indices)
            for si, s in enumerate(stmts):
                if s.kind == "nop":
                    continue
                if s.kind == "unsupported":
                    raise MirUnsupported("statement in %s: %s" % (body.name, s.raw))
                forks = self._index_forks(st, frame, s)
                if forks is not None:
                    for st2 in forks:
                        yield from self._resume_block(st2, body, frame, bb, si)
                    return
                self.exec_stmt(st, body, frame, s)
            k = term.kind
            d = term.d
            if k == "goto":
                bb = d["target"]
                continue
            if k == "return":
                self.npaths += 1
                yield Outcome("return", st, value=st.cells.get((frame, 0), UNIT))
                return
            if k == "drop":
                bb = d["target"]
                continue
            if k == "unreachable":
                raise MirUnsupported("reached `unreachable` in %s %s (model of an enum is missing an alternative?)" % (body.name, bb))
            if k == "resume":
                yield Outcome("panic", st, msg="resume")
                return
            if k == "switch":
                v = self.eval_operand(st, frame, d["op"])
                e = v.e
                if v.ty == "bool":
                    e = z3.If(e, z3.IntVal(1), z3.IntVal(0))
                # rustc prints the targets of a switch over a signed integer as unsigned numbers (Ordering::Less = 255 for an i8
                # discriminant): bring them back into the range of the operand's type
                if v.ty in INT_TYPES and INT_TYPES[v.ty][1]:
                    bits_ = INT_TYPES[v.ty][0]
                    d = dict(d, targets=[(str(int(val) - (1 << bits_)) if int(val) >= (1 << (bits_ - 1)) else val, t) for val, t in d["targets"]])
                c = self.concrete(e)
                if c is not None:
                    if c is True:
                        c = 1
                    if c is False:
                        c = 0
                    tgt = d["otherwise"]
                    for val, t in d["targets"]:
                        if int(val) == c:
                            tgt = t
                            break
                    bb = tgt
                    continue
                conds = []
                for val, t in d["targets"]:
                    conds.append((e == int(val), t))
                if d["otherwise"]:
                    conds.append((z3.And([e != int(val) for val, _ in d["targets"]]), d["otherwise"]))
                for cond, t in conds:
                    stmts_t, term_t = body.blocks.get(t, ((), None))
                    if term_t is not None and term_t.kind == "unreachable" and not stmts_t:
                        # rustc's `otherwise: unreachable` arm: must be infeasible, checked not assumed
                        for st2 in self.branch(st, cond):
                            raise MirUnsupported("`unreachable` arm feasible in %s %s (value %s)" % (body.name, bb, e))
                        continue
                    for st2 in self.branch(st, cond):
                        yield from self.run_from(st2, body, frame, t)
                return
            if k == "assert":
                v = self.eval_operand(st, frame, d["cond"])
                okc = v.e if d["expected"] else z3.Not(v.e)
                okc = z3.simplify(okc)
                if not z3.is_true(okc):
                    for st2 in self.branch(st, z3.Not(okc)):
                        self.npaths += 1
                        yield Outcome("panic", st2, msg="%s: %s" % (body.name, d["msg"]))
                    for st2 in self.branch(st, okc):
                        self._ovf_passed(st2, frame, d["cond"], d["expected"])
                        yield from self.run_from(st2, body, frame, d["target"])
                    return
                self._ovf_passed(st, frame, d["cond"], d["expected"])
                bb = d["target"]
                continue
            if k == "call":
                args = [self.eval_operand(st, frame, a) for a in d["args"]]
                dest_ty = self._place_type(body, d["dest"])
                any_out = False
                for o in self.call(st, d["callee"], args, dest_ty, caller=body):
                    if o.kind == "return":
                        if d["target"] is None:
                            continue  # diverging call returned?? ignore
                        cell, projs = self.resolve_place(o.st, frame, d["dest"])
                        self.write(o.st, cell, projs, o.value)
                        yield from self.run_from(o.st, body, frame, d["target"])
                    else:
                        yield o
                return
            if k == "unsupported":
                raise MirUnsupported("terminator in %s: %s" % (body.name, term.raw))
            raise MirUnsupported("terminator %s in %s" % (k, body.name))

    def _ovf_passed(self, st, frame, cond_op, expected):
        pl = cond_op.place
        if expected or pl is None or not pl.projs or pl.projs[-1][0] != "field" or pl.projs[-1][1] != 1:
            return
        try:
            cell, projs = self.resolve_place(st, frame, Place(pl.local, pl.projs[:-1]))
            t = self.read(st, cell, projs)
        except MirUnsupported:
            return
        if isinstance(t, Adt) and t.ty == "__ovf__":
            self.write(st, cell, projs, Adt("tuple", None, (t.fields[2], mk_bool(False))))

    def _resume_block(self, st, body, frame, bb, si):
        """continue executing block bb from statement si (after an index fork)"""
        stmts, term = body.blocks[bb]
        # execute remaining statements through a synthetic block
        key = "%s@%d" % (bb, si)
        if key not in body.blocks:
            body.blocks[key] = (stmts[si:], term)
        st.visits[(frame, key)] = 0
        yield from self.run_from(st, body, frame, key)

    def _index_forks(self, st, frame, s):
        """if the statement indexes with a non-concrete local, fork on its feasible values"""
        locs = []
        places = []
        if s.place is not None:
            places.append(s.place)
        rv = s.rv
        if isinstance(rv, Rvalue):
            for x in (rv.a, rv.b, rv.c):
                if isinstance(x, Place):
                    places.append(x)
                elif isinstance(x, Operand) and x.place is not None:
                    places.append(x.place)
                elif isinstance(x, list):
                    for y in x:
                        y = y[1] if isinstance(y, tuple) else y
                        if isinstance(y, Operand) and y.place is not None:
                            places.append(y.place)
        for p in places:
            for pr in p.projs:
                if pr[0] == "index":
                    iv = st.cells.get((frame, pr[1]))
                    if isinstance(iv, Sc) and self.concrete(iv.e) is None:
                        locs.append((pr[1], iv, p))
        if not locs:
            return None
        loc, iv, p = locs[0]

        def gen():
            for st2, kk in self.enum_values(st, iv.e, limit=4096):
                st2.cells[(frame, loc)] = Sc(z3.IntVal(kk), iv.ty)
                yield st2
        return gen()

    def _place_type(self, body, place):
        if not place.projs:
            return body.locals.get(place.local)
        last = place.projs[-1]
        if last[0] == "field":
            return last[2]
        return None

    def exec_stmt(self, st, body, frame, s):
        if s.kind == "assign":
            dest_ty = self._place_type(body, s.place)
            v = self.eval_rvalue(st, frame, s.rv, dest_ty)
            cell, projs = self.resolve_place(st, frame, s.place)
            self.write(st, cell, projs, v)
            if self.trace:
                print("   ", s.raw, "  =>", v, file=sys.stderr)
            return
        if s.kind == "setdiscr":
            cell, projs = self.resolve_place(st, frame, s.place)
            v = self.read(st, cell, projs)
            if isinstance(v, En):
                self.write(st, cell, projs, En(v.ty, z3.IntVal(int(s.rv)), v.alts))
                return
        raise MirUnsupported("statement %s" % s.raw)

    def _merged_call(self, st, body, args):
        """function summary on the fly: explore a pure callee to the end, merge its returning paths into one
        if-then-else value (keeps recursion over symbolic trees polynomial instead of forking per constructor pair)"""
        base_pc, base_as = len(st.pc), len(st.assumed)
        outs = list(self.run_body(st.fork(), body, list(args)))
        if not outs or any(o.kind != "return" for o in outs):
            return None
        conds = [z3.And(o.st.pc[base_pc:]) if len(o.st.pc) > base_pc else z3.BoolVal(True) for o in outs]
        val = _merge_values([o.value for o in outs], conds)
        if val is None:
            return None
        # heap cells allocated by the callee (Box::new, vec![..]) may be referenced from the merged value: keep them
        # (cell ids are globally unique, so the union over the explored paths cannot clash)
        for o in outs:
            for cid, cv in o.st.cells.items():
                if cid not in st.cells and cid[0] != "f":
                    st.cells[cid] = cv
        self.merged_calls += 1
        return Outcome("return", st, value=val)

    # ------------------------------------------------------------------ calls

    def call(self, st, callee, args, dest_ty, caller=None):
        """generator of Outcome"""
        for pat, fn in self.models:
            m = pat.search(callee) if hasattr(pat, "search") else (callee == pat)
            if m:
                self.used_models.add(pat.pattern if hasattr(pat, "pattern") else pat)
                r = fn(self, st, callee, args, dest_ty)
                if r is NotImplemented:
                    continue
                for item in r:
                    if isinstance(item, Outcome):
                        yield item
                    else:
                        st2, v = item
                        yield Outcome("return", st2, value=v)
                return
        b = self.resolve(callee, getattr(caller, "crate", None))
        if b is not None and getattr(b, "ambiguous", False) and b.impl_at is None:
            pick = self.disambiguate(callee, b, caller) if self.disambiguate else None
            if pick is None:
                raise MirUnsupported("several bodies are printed under the name `%s` (same function name in different modules)" % b.name)
            b = pick
        if b is not None:
            if self.merge_pat is not None and self.merge_pat.search(b.name):
                merged = self._merged_call(st, b, args)
                if merged is not None:
                    yield merged
                    return
            yield from self.run_body(st, b, args)
            return
        raise MirUnsupported("no MIR body and no model for callee `%s`%s" % (callee, " (called from %s)" % caller.name if caller else ""))


def _merge_values(vals, conds):
    """ite-merge of path results: scalars of one type, or enums/aggregates of the same shape (recursively); None if impossible"""
    v0 = vals[0]
    if all(isinstance(v, Sc) for v in vals) and len({v.ty for v in vals}) == 1:
        e = vals[-1].e
        for v, c in zip(reversed(vals[:-1]), reversed(conds[:-1])):
            e = z3.If(c, v.e, e)
        return Sc(z3.simplify(e), v0.ty)
    if all(isinstance(v, En) for v in vals) and len({v.ty for v in vals}) == 1:
        disc = vals[-1].disc
        for v, c in zip(reversed(vals[:-1]), reversed(conds[:-1])):
            disc = z3.If(c, v.disc, disc)
        alts = {}
        names = []
        for v in vals:
            for k in v.alts:
                if k not in names:
                    names.append(k)
        for k in names:
            have = [(v.alts[k], c) for v, c in zip(vals, conds) if k in v.alts]
            arity = {len(f) for f, _ in have}
            if len(arity) != 1:
                return None
            fields = []
            for i in range(arity.pop()):
                m = _merge_values([f[i] for f, _ in have], [c for _, c in have])
                if m is None:
                    return None
                fields.append(m)
            alts[k] = tuple(fields)
        return En(v0.ty, z3.simplify(disc), alts)
    if all(isinstance(v, Adt) for v in vals) and len({(v.kind, v.ty, len(v.fields)) for v in vals}) == 1:
        fields = []
        for i in range(len(v0.fields)):
            m = _merge_values([v.fields[i] for v in vals], conds)
            if m is None:
                return None
            fields.append(m)
        return Adt(v0.kind, v0.ty, fields)
    if all(v is v0 for v in vals):
        return v0
    if all(isinstance(v, StrV) for v in vals):
        if v0.const is not None and all(v.const == v0.const and not v.attrs for v in vals):
            return v0
        # character-sequence strings of one concrete length: merge character by character
        seqs = [v.attrs.get("seq") if v.const is None else None for v in vals]
        if all(q is not None and z3.is_int_value(z3.simplify(q.len)) for q in seqs):
            ns = {z3.simplify(q.len).as_long() for q in seqs}
            if len(ns) == 1:
                n = ns.pop()
                items = []
                for i in range(n):
                    m = _merge_values([q.items[i] for q in seqs], conds)
                    if m is None:
                        return None
                    items.append(m)
                return StrV(None, seq=VecV(z3.IntVal(n), tuple(items), "char"))
    return None


def _has_ref(v):
    if isinstance(v, Ref):
        return True
    if isinstance(v, Adt):
        return any(_has_ref(f) for f in v.fields)
    if isinstance(v, En):
        return any(_has_ref(f) for fs in v.alts.values() for f in fs)
    if isinstance(v, VecV):
        return any(_has_ref(f) for f in v.items)
    return False


def _parse_op(s):
    from .parser import parse_operand
    return parse_operand(s)


def _unescape(s):
    try:
        return bytes(s, "utf-8").decode("unicode_escape").encode("latin-1", "ignore").decode("utf-8", "ignore") if "\\" in s else s
    except Exception:
        return s


def _strip_generics(seg):
    i = seg.find("<")
    return seg[:i] if i > 0 else seg


def _path_segments(name):
    """split a path on `::` at bracket depth 0, dropping pure-generic segments (`::<T>`)"""
    out, depth, cur = [], 0, []
    i, n = 0, len(name)
    while i < n:
        c = name[i]
        if c in "<([{":
            depth += 1
        elif c in ">)]}":
            if not (c == ">" and i > 0 and name[i - 1] == "-"):
                depth -= 1
        if depth == 0 and name[i:i + 2] == "::":
            out.append("".join(cur))
            cur = []
            i += 2
            continue
        cur.append(c)
        i += 1
    out.append("".join(cur))
    return [s for s in (x.strip() for x in out) if s and not (s.startswith("<") and s.endswith(">") and " as " not in s and "impl at" not in s)]


def _base_name(ty):
    """`std::option::Option<u8>` -> `Option`; `&'a mut Foo` -> `Foo`"""
    t = ty.strip()
    t = re.sub(r"^&('\w+ )?(mut )?", "", t).strip()
    t = _strip_generics_full(t)
    segs = t.split("::")
    return segs[-1].strip()


def _strip_generics_full(t):
    out, depth = [], 0
    for i, c in enumerate(t):
        if c == "<":
            depth += 1
        elif c == ">" and not (i > 0 and t[i - 1] == "-"):
            depth -= 1
        elif depth == 0:
            out.append(c)
    return "".join(out)


def _norm_ty(t):
    if t is None:
        return None
    t = re.sub(r"\b(?:[a-z_][a-z0-9_]*::)+", "", t)
    return re.sub(r"\s+", "", t)
