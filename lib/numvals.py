"""Contract-level model of dmntk_feel_number::FeelNumber for index arithmetic kernels (engine M).
A number is Opaque('FeelNumber', e = floor of its value : Int, info = {'int': Bool}) — enough to decide sign tests, comparison
with integers, truncation and the conversions to machine integers, which is all the position arithmetic of the built-ins uses.
Nothing about decimal digits or rounding is claimed through this model (DESIGN §2)."""
import re

import z3

from mir.parser import MirUnsupported
from mir.sym import Adt, En, Opaque, Outcome, Ref, Sc, StrV, VecV, UNIT, mk_bool, mk_int, none, some, in_range, ty_range
from mir.models import deref, R


def fresh_number(ex, st, hint):
    return Opaque("FeelNumber", z3.Int(ex.fresh_name(hint + "_floor")), {"int": z3.Bool(ex.fresh_name(hint + "_isint"))})


def num_const(v):
    return Opaque("FeelNumber", z3.IntVal(v), {"int": z3.BoolVal(True)})


def _isint(n):
    return n.info["int"] if isinstance(n.info, dict) else z3.BoolVal(True)


def m_num_pred(ex, st, callee, args, dest_ty):
    n = deref(ex, st, args[0])
    op = callee.rsplit("::", 1)[1]
    r = {"is_positive": z3.Or(n.e > 0, z3.And(n.e == 0, z3.Not(_isint(n)))),
         "is_negative": n.e < 0, "is_integer": _isint(n), "is_zero": z3.And(n.e == 0, _isint(n)), "is_one": z3.And(n.e == 1, _isint(n))}[op]
    yield st, mk_bool(z3.simplify(r))


def m_num_to_int(ex, st, callee, args, dest_ty):
    n = deref(ex, st, args[0])
    T = {"to_usize": "usize", "to_isize": "isize", "to_u64": "u64", "to_u8": "u8", "to_i32": "i32", "to_u32": "u32"}[callee.rsplit("::", 1)[1]]
    okc = z3.And(_isint(n), in_range(n.e, T))
    yield st, En("Option", z3.If(okc, z3.IntVal(1), z3.IntVal(0)), {"None": (), "Some": (Sc(n.e, T),)})


def m_num_try_from(ex, st, callee, args, dest_ty):
    n = deref(ex, st, args[0])
    T = re.match(r"^<(\w+) as TryFrom<&?FeelNumber>>::try_from$", callee).group(1)
    okc = z3.And(_isint(n), in_range(n.e, T))
    yield st, En("Result", z3.If(okc, z3.IntVal(0), z3.IntVal(1)), {"Ok": (Sc(n.e, T),), "Err": (Opaque("Error"),)})


def m_num_abs(ex, st, callee, args, dest_ty):
    n = deref(ex, st, args[0])
    # |v| : floor(|v|) = floor(v) if v >= 0 else (-floor(v) if integer else -floor(v) - 1)
    fl = z3.If(n.e >= 0, n.e, z3.If(_isint(n), -n.e, -n.e - 1))
    yield st, Opaque("FeelNumber", z3.simplify(fl), {"int": _isint(n)})


def m_num_trunc(ex, st, callee, args, dest_ty):
    n = deref(ex, st, args[0])
    yield st, Opaque("FeelNumber", z3.simplify(z3.If(z3.Or(n.e >= 0, _isint(n)), n.e, n.e + 1)), {"int": z3.BoolVal(True)})


def m_num_const(ex, st, callee, args, dest_ty):
    yield st, num_const({"one": 1, "zero": 0, "two": 2}[callee.rsplit("::", 1)[1]])


def m_num_cmp(ex, st, callee, args, dest_ty):
    """comparison of a number with an integer-valued number (the built-ins compare against constants): by floors"""
    a, b = deref(ex, st, args[0]), deref(ex, st, args[1])
    op = callee.rsplit("::", 1)[1]
    ia, ib = _isint(a), _isint(b)
    lt = z3.Or(a.e < b.e, z3.And(a.e == b.e, ia, z3.Not(ib)))
    eq = z3.And(a.e == b.e, ia == ib, z3.Or(ia, z3.BoolVal(False)))
    gt = z3.And(z3.Not(lt), z3.Not(z3.And(a.e == b.e, ia, ib)))
    if not (z3.is_true(z3.simplify(ia)) or z3.is_true(z3.simplify(ib))):
        raise MirUnsupported("comparison of two possibly fractional numbers in the floor model")
    r = {"lt": lt, "le": z3.Not(gt), "gt": gt, "ge": z3.Not(lt)}[op]
    yield st, mk_bool(z3.simplify(r))


def m_dec_to_int(ex, st, callee, args, dest_ty):
    """decQuadToUInt32 / decQuadToInt32 with DEC_ROUND_HALF_EVEN (dec.rs): the value rounded to an integer, 0 when that
    does not fit (Invalid operation).  For a non-integer the rounded result is floor or floor+1 (which one is not modelled)."""
    n = deref(ex, st, args[0])
    T = "u32" if callee.endswith("dec_to_u32") else "i32"
    up = ex.fresh_bool("round_up")
    r = z3.If(_isint(n), n.e, z3.If(up.e, n.e + 1, n.e))
    yield st, Sc(z3.simplify(z3.If(in_range(r, T), r, z3.IntVal(0))), T)


def m_num_from_int(ex, st, callee, args, dest_ty):
    yield st, Opaque("FeelNumber", args[0].e, {"int": z3.BoolVal(True)})


def m_to_string_opaque(ex, st, callee, args, dest_ty):
    yield st, StrV("")


NUM_MODELS = [
    (R(r"^FeelNumber::(is_positive|is_negative|is_integer|is_zero|is_one)$"), m_num_pred),
    (R(r"^FeelNumber::to_(usize|isize|u64|u8|i32|u32)$"), m_num_to_int),
    (R(r"^<\w+ as TryFrom<&?FeelNumber>>::try_from$"), m_num_try_from),
    (R(r"(^|::)dec_to_(u32|i32)$"), m_dec_to_int),
    (R(r"^<FeelNumber as From<(i|u)(\d+|size)>>::from$|^<(i|u)(\d+|size) as Into<FeelNumber>>::into$"), m_num_from_int),
    (R(r"^FeelNumber::abs$"), m_num_abs),
    (R(r"^FeelNumber::trunc$"), m_num_trunc),
    (R(r"^FeelNumber::(one|zero|two)$"), m_num_const),
    (R(r"^<&?FeelNumber as PartialOrd>::(lt|le|gt|ge)$"), m_num_cmp),
    (R(r"^<FeelNumber as ToString>::to_string$"), m_to_string_opaque),
]
