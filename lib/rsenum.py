"""Tiny extractor of `enum` definitions (variant name -> discriminant) and struct field orders from
Rust sources of the mirror: MIR prints variants by name, `discriminant()` yields the numeric value."""
import re


def strip_comments(src):
    src = re.sub(r"/\*.*?\*/", "", src, flags=re.S)
    return re.sub(r"//[^\n]*", "", src)


def _body(src, i):
    depth = 0
    j = i
    while j < len(src):
        if src[j] == "{":
            depth += 1
        elif src[j] == "}":
            depth -= 1
            if depth == 0:
                return src[i + 1:j]
        j += 1
    return ""


def _split_top(s):
    out, depth, cur = [], 0, []
    for c in s:
        if c in "([{<":
            depth += 1
        elif c in ")]}>":
            depth -= 1
        if c == "," and depth == 0:
            out.append("".join(cur))
            cur = []
        else:
            cur.append(c)
    if "".join(cur).strip():
        out.append("".join(cur))
    return out


def enums_of(src):
    """-> {enum name: {variant: discriminant}}"""
    src = strip_comments(src)
    res = {}
    for m in re.finditer(r"\benum\s+([A-Za-z_][A-Za-z0-9_]*)\s*(?:<[^{]*>)?\s*\{", src):
        body = _body(src, m.end() - 1)
        d = {}
        nxt = 0
        for item in _split_top(body):
            item = re.sub(r"#\[[^\]]*\]", "", item).strip()
            if not item:
                continue
            vm = re.match(r"^([A-Za-z_][A-Za-z0-9_]*)", item)
            if not vm:
                continue
            em = re.search(r"=\s*(-?\d+)\s*$", item)
            if em:
                nxt = int(em.group(1))
            d[vm.group(1)] = nxt
            nxt += 1
        res[m.group(1)] = d
    return res


def enum_payload_arity(src):
    """-> {enum: {variant: number of tuple fields or list of named fields}}"""
    src = strip_comments(src)
    res = {}
    for m in re.finditer(r"\benum\s+([A-Za-z_][A-Za-z0-9_]*)\s*(?:<[^{]*>)?\s*\{", src):
        body = _body(src, m.end() - 1)
        d = {}
        for item in _split_top(body):
            item = re.sub(r"#\[[^\]]*\]", "", item).strip()
            vm = re.match(r"^([A-Za-z_][A-Za-z0-9_]*)\s*(.*)$", item, re.S)
            if not vm:
                continue
            rest = vm.group(2).strip()
            if rest.startswith("("):
                d[vm.group(1)] = [x.strip() for x in _split_top(rest[1:rest.rindex(")")])]
            elif rest.startswith("{"):
                d[vm.group(1)] = [x.split(":")[0].strip() for x in _split_top(rest[1:rest.rindex("}")])]
            else:
                d[vm.group(1)] = []
        res[m.group(1)] = d
    return res


def struct_fields(src, name):
    src = strip_comments(src)
    m = re.search(r"\bstruct\s+%s\s*(?:<[^{(]*>)?\s*\{" % re.escape(name), src)
    if not m:
        return None
    body = _body(src, m.end() - 1)
    out = []
    for item in _split_top(body):
        item = re.sub(r"#\[[^\]]*\]", "", item).strip()
        fm = re.match(r"^(?:pub(?:\([^)]*\))?\s+)?([A-Za-z_][A-Za-z0-9_]*)\s*:", item)
        if fm:
            out.append(fm.group(1))
    return out
