"""Shared driver code for the solver-based checks of dmntk.rs (see /verif/DESIGN.md).

Everything a check needs from /repo is rebuilt from the *current working tree* into a scratch
mirror under /tmp/dmntk-verif/<property>/ (removed when the check ends); third-party build
output is cached under /verif/.cache (git-ignored, recreated on demand).
"""
import fcntl
import hashlib
import json
import os
import re
import shutil
import subprocess
import sys
import time

VERIF = os.path.dirname(os.path.dirname(os.path.abspath(__file__)))
REPO = os.environ.get("VERIF_REPO", "/repo")
CACHE = os.path.join(VERIF, ".cache")
SCRATCH_ROOT = os.environ.get("VERIF_SCRATCH", "/tmp/dmntk-verif")
# experiments against a mutated copy of the repository (bin/try-mutant) write their evidence elsewhere
EVIDENCE_DIR = os.environ.get("VERIF_EVIDENCE_DIR", os.path.join(VERIF, "evidence"))
CRATES = {
    "dmntk-common": "common", "dmntk-evaluator": "evaluator", "dmntk-examples": "examples",
    "dmntk-feel": "feel", "dmntk-feel-evaluator": "feel-evaluator",
    "dmntk-feel-grammar": "feel-grammar", "dmntk-feel-number": "feel-number",
    "dmntk-feel-parser": "feel-parser", "dmntk-model": "model",
    "dmntk-model-evaluator": "model-evaluator", "dmntk-recognizer": "recognizer",
    "dmntk-server": "server", "dmntk-workspace": "workspace",
}
NIGHTLY = "nightly"

EXIT_OK, EXIT_VIOLATION, EXIT_INCONCLUSIVE = 0, 1, 2


def log(*a):
    print("[verif]", *a, file=sys.stderr, flush=True)


def env_offline(extra=None):
    e = dict(os.environ)
    e["CARGO_NET_OFFLINE"] = "true"
    e.pop("RUSTUP_TOOLCHAIN", None)
    if extra:
        e.update(extra)
    return e


def sh(cmd, cwd=None, timeout=None, env=None, mem_gb=None, log_path=None):
    """Run a command, return (rc, output, seconds). rc = -9 on time-out."""
    t0 = time.time()
    pre = None
    if mem_gb:
        import resource

        def pre():
            lim = int(mem_gb * 1024 ** 3)
            resource.setrlimit(resource.RLIMIT_AS, (lim, lim))
            os.setsid()
    else:
        pre = os.setsid
    p = subprocess.Popen(cmd, cwd=cwd, env=env or env_offline(), stdout=subprocess.PIPE,
                         stderr=subprocess.STDOUT, shell=isinstance(cmd, str), preexec_fn=pre)
    try:
        out, _ = p.communicate(timeout=timeout)
        rc = p.returncode
    except subprocess.TimeoutExpired:
        try:
            os.killpg(p.pid, 9)
        except Exception:
            pass
        out, _ = p.communicate()
        rc = -9
    out = out.decode("utf-8", "replace")
    if log_path:
        with open(log_path, "w") as f:
            f.write(out)
    return rc, out, time.time() - t0


# --------------------------------------------------------------------------- mirror


class Mirror:
    """Scratch copy of /repo's working tree with [patch.crates-io] and injected child modules."""

    def __init__(self, pid):
        self.pid = pid
        self.root = os.path.join(SCRATCH_ROOT, pid)
        self.src = os.path.join(self.root, "src")
        self.injected = []

    def create(self):
        os.makedirs(self.root, exist_ok=True)
        rc, out, _ = sh(["rsync", "-a", "--delete", "--exclude", "/target", "--exclude", ".git",
                         REPO + "/", self.src + "/"])
        if rc != 0:
            raise RuntimeError("rsync failed: " + out)
        with open(os.path.join(self.src, "Cargo.toml"), "a") as f:
            f.write("\n[patch.crates-io]\n")
            for name, path in CRATES.items():
                f.write('%s = { path = "%s" }\n' % (name, path))
        return self

    def inject(self, rel_file, harness_abs, modname, cfg="any(kani, dmntk_verif)"):
        """Append a child-module declaration to a source file of the mirror (once: a companion check may ask for the same shim again)."""
        if (rel_file, harness_abs) in self.injected:
            return
        p = os.path.join(self.src, rel_file)
        with open(p, "a") as f:
            f.write('\n#[cfg(%s)]\n#[path = "%s"]\nmod %s;\n' % (cfg, harness_abs, modname))
        self.injected.append((rel_file, harness_abs))

    def path(self, rel):
        return os.path.join(self.src, rel)

    def read(self, rel):
        with open(self.path(rel)) as f:
            return f.read()

    def remove(self):
        shutil.rmtree(self.root, ignore_errors=True)


def file_hash(path):
    h = hashlib.sha256()
    with open(path, "rb") as f:
        h.update(f.read())
    return h.hexdigest()[:16]


def text_hash(s):
    return hashlib.sha256(s.encode()).hexdigest()[:16]


class Lock:
    def __init__(self, name):
        os.makedirs(CACHE, exist_ok=True)
        self.path = os.path.join(CACHE, name + ".lock")

    def __enter__(self):
        self.f = open(self.path, "w")
        fcntl.flock(self.f, fcntl.LOCK_EX)

    def __exit__(self, *a):
        fcntl.flock(self.f, fcntl.LOCK_UN)
        self.f.close()


# --------------------------------------------------------------------------- MIR dump


def mir_dump(mirror, crate_dir, overflow_checks=True):
    """-Zunpretty=mir of one crate of the mirror (regenerated on every call)."""
    cdir = mirror.path(crate_dir)
    lib = os.path.join(cdir, "src", "lib.rs")
    os.utime(lib, None)
    tdir = os.path.join(CACHE, "mir-target")
    cmd = ["cargo", "+" + NIGHTLY, "rustc", "--offline", "--lib", "--target-dir", tdir, "--",
           "-Zunpretty=mir", "-C", "debug-assertions=off",
           "-C", "overflow-checks=" + ("on" if overflow_checks else "off"), "-Awarnings"]
    with Lock("mir-target"):
        p = subprocess.run(cmd, cwd=cdir, env=env_offline(), stdout=subprocess.PIPE, stderr=subprocess.PIPE)
    out = p.stdout.decode("utf-8", "replace")
    if p.returncode != 0 or "fn " not in out:
        raise RuntimeError("MIR dump failed for %s:\n%s" % (crate_dir, p.stderr.decode()[-3000:]))
    return out


# --------------------------------------------------------------------------- Kani


KANI_STATUS_RE = re.compile(r"^Check (\d+): (\S+)\s*\n\s*- Status: (\w+)\s*\n\s*- Description: \"(.*)\"\s*\n\s*- Location: (.*)$", re.M)


def kani_run(mirror, crate, harness, timeout=300, mem_gb=12, extra=None, target_tag=None, playback=False,
             rustflags_cfg=None):
    """Run one Kani harness of the mirror. Returns dict(status, checks, failed, covers, seconds, log)."""
    tdir = os.path.join(CACHE, "kani-" + (target_tag or mirror.pid))
    os.makedirs(tdir, exist_ok=True)
    cmd = ["cargo", "kani", "-p", crate, "-Z", "stubbing", "--target-dir", tdir, "--harness", harness]
    if playback:
        cmd += ["-Z", "concrete-playback", "--concrete-playback=print"]
    if extra:
        cmd += extra
    logp = os.path.join(mirror.root, "kani-%s.log" % harness.replace(":", "_"))
    env = env_offline()
    if rustflags_cfg:
        env["RUSTFLAGS"] = (env.get("RUSTFLAGS", "") + " " + rustflags_cfg).strip()
    rc, out, secs = sh(cmd, cwd=mirror.src, timeout=timeout, mem_gb=None, env=env, log_path=logp)
    res = {"harness": harness, "seconds": round(secs, 2), "rc": rc, "log": logp, "cmd": " ".join(cmd)}
    checks = [dict(n=int(m.group(1)), name=m.group(2), status=m.group(3), desc=m.group(4), loc=m.group(5))
              for m in KANI_STATUS_RE.finditer(out)]
    res["checks"] = len([c for c in checks if ".cover." not in c["name"] and "cover" != c["name"].split(".")[-2:-1]])
    res["failed"] = [c for c in checks if c["status"] == "FAILURE"]
    res["covers"] = {c["desc"]: c["status"] for c in checks if "cover" in c["name"].split(".")}
    res["undetermined"] = [c for c in checks if c["status"] in ("UNDETERMINED", "ERROR")]
    res["stubs"] = re.findall(r"- Stub: (.*)", out)
    m = re.search(r"Verification Time: ([0-9.]+)s", out)
    res["cbmc_seconds"] = float(m.group(1)) if m else None
    if rc == -9:
        res["status"] = "TIMEOUT"
    elif "VERIFICATION:- SUCCESSFUL" in out:
        res["status"] = "SUCCESS"
    elif "VERIFICATION:- FAILED" in out:
        # an unwinding assertion or an unsupported construct is inconclusive, not a violation
        bad = [c for c in res["failed"] if "unwinding assertion" in c["desc"] or "unsupported" in c["name"]]
        real = [c for c in res["failed"] if c not in bad]
        if "Status: ERROR" in out or "CBMC failed" in out or "out of memory" in out.lower():
            res["status"] = "ERROR"
        elif real:
            res["status"] = "FAILURE"
        else:
            res["status"] = "UNWIND" if bad else "ERROR"
    else:
        res["status"] = "ERROR"
    if playback:
        res["playback"] = parse_playback(out)
    res["tail"] = out[-2500:]
    return res


def parse_playback(out):
    """Concrete byte vectors printed by --concrete-playback=print, per failing check / cover,
    in kani::any() call order: list of dict(kind, desc, vals)."""
    res = []
    for blk in out.split("Concrete playback unit test for")[1:]:
        h = re.search(r"/// Check for `(\w+)`: \"(.*)\"", blk)
        m = re.search(r"let concrete_vals: Vec<Vec<u8>> = vec!\[(.*?)\n\s*\];", blk, re.S)
        if not m:
            continue
        vals = []
        for v in re.finditer(r"vec!\[([0-9, ]*)\]", m.group(1)):
            vals.append([int(x) for x in v.group(1).replace(" ", "").split(",") if x])
        res.append(dict(kind=h.group(1) if h else "?", desc=h.group(2) if h else "?", vals=vals))
    return res


def le_int(bs, signed=False):
    return int.from_bytes(bytes(bs), "little", signed=signed)


# --------------------------------------------------------------------------- native replay


def replay_build(mirror, release=False, extra_cfg="", crate="replay", binary="dmntk-replay"):
    """Build /verif/replay (or another replay crate of /verif) against the mirror (real decNumber, regex, chrono; no stubs)."""
    rdir = os.path.join(mirror.root, crate)
    if not os.path.isdir(rdir):
        shutil.copytree(os.path.join(VERIF, crate), rdir)
        with open(os.path.join(rdir, "Cargo.toml")) as f:
            t = f.read()
        t = t.replace("@MIRROR@", mirror.src)
        with open(os.path.join(rdir, "Cargo.toml"), "w") as f:
            f.write(t)
        shutil.copy(os.path.join(mirror.src, "Cargo.lock"), os.path.join(rdir, "Cargo.lock"))
    # one target directory per cfg set: a change of RUSTFLAGS would otherwise rebuild every dependency each time two checks alternate
    tag = ("native-target" if crate == "replay" else "native-" + crate) + ("-" + re.sub(r"[^a-z0-9_]+", "_", extra_cfg.replace("--cfg", "").strip()) if extra_cfg.strip() else "")
    tdir = os.path.join(CACHE, tag)
    cmd = ["cargo", "build", "--offline", "--target-dir", tdir]
    if release:
        cmd.append("--release")
    env = env_offline({"RUSTFLAGS": ("--cfg dmntk_verif -Awarnings " + extra_cfg).strip()})
    with Lock(tag):
        rc, out, secs = sh(cmd, cwd=rdir, env=env, timeout=1800)
        if rc != 0:
            raise RuntimeError("replay build failed:\n" + out[-4000:])
        src = os.path.join(tdir, "release" if release else "debug", binary)
        dst = os.path.join(mirror.root, binary + ("-release" if release else ""))
        shutil.copy(src, dst)
    return dst


def replay_call(binary, args, timeout=60, stdin=None):
    """Run the replay binary; returns (rc, stdout lines). A panic is reported by the binary as PANIC."""
    p = subprocess.run([binary] + [str(a) for a in args], stdout=subprocess.PIPE, stderr=subprocess.PIPE,
                       timeout=timeout, input=stdin.encode() if stdin is not None else None)
    return p.returncode, p.stdout.decode("utf-8", "replace").strip(), p.stderr.decode("utf-8", "replace")


def run_companion(check, mirror, tier, modname, subs):
    """Obligations another property's check decides, run under THIS property's name because this property's statement covers them too
    (a change seeded against this property is then reported by this property's check, not only by its neighbour's). `subs`: substrings of
    the obligation names to run."""
    import importlib
    mod = importlib.import_module("checks." + modname)
    saved = getattr(check, "only", None)
    sel = [s_ for s_ in subs if saved is None or any(u in "%s/M/%s" % (check.pid, s_) for u in saved)]
    if not sel:
        return
    check.only = sel
    try:
        mod.run(check, mirror, tier)
    finally:
        check.only = saved


# --------------------------------------------------------------------------- findings / evidence


def load_known_findings():
    p = os.path.join(VERIF, "known_findings.json")
    if not os.path.exists(p):
        return {"findings": [], "fixed": []}
    with open(p) as f:
        return json.load(f)


class Check:
    """Bookkeeping for one property check: obligations, violations, evidence, exit code."""

    def __init__(self, pid, tier, engine_note):
        self.pid = pid
        self.tier = tier
        self.seed = int(os.environ.get("VERIF_SEED", "0") or 0)
        self.t0 = time.time()
        self.obligations = []  # dict(id, status, engine, seconds, detail)
        self.violations = []
        self.known_hits = []
        self.inconclusive = []
        self.samples = []
        self.functions = []
        self.bounds = []
        self.stubs = []
        self.assumptions = []
        self.trusted = []
        self.solver_seconds = 0.0
        self.covers_hit = 0
        self.nontrivial = 0
        self.queries = 0
        self.validated = 0
        self.replays = 0  # native replays performed (counterexamples and known-finding witnesses)
        self.engine_note = engine_note
        self.known = [k for k in load_known_findings().get("findings", []) if k.get("property") == pid]

    def known_for(self, obligation):
        return [k for k in self.known if k.get("obligation") == obligation or re.fullmatch(k.get("obligation", ""), obligation)]

    def add(self, oid, status, engine, seconds=0.0, detail=None, queries=1, nontrivial=True):
        """status: holds | violated | known | inconclusive"""
        self.obligations.append(dict(id=oid, status=status, engine=engine, seconds=round(seconds, 3), detail=detail))
        self.queries += queries
        self.solver_seconds += seconds
        if nontrivial:
            self.nontrivial += 1
        if status == "inconclusive":
            self.inconclusive.append(oid)
        log("%-60s %-12s %6.1fs %s" % (oid, status, seconds, (json.dumps(detail)[:200] if detail and status != "holds" else "")))

    def violation(self, oid, replay_obj):
        self.violations.append(dict(obligation=oid, replay=replay_obj))

    def known_hit(self, finding, what):
        self.known_hits.append((finding, what))

    def finish(self, extra_cov=None):
        os.makedirs(EVIDENCE_DIR, exist_ok=True)
        wall = time.time() - self.t0
        n_ob = len(self.obligations)
        held = len([o for o in self.obligations if o["status"] in ("holds", "known")])
        paths = sum(int((o.get("detail") or {}).get("paths", 0) or 0) for o in self.obligations) + \
            sum(int((o.get("detail") or {}).get("cbmc_properties", 0) or 0) for o in self.obligations)
        cov = {
            "states": max(paths, 1),
            "transitions": max(self.queries, 1),
            "traces_validated_against_impl": self.replays,
            "evaluations": max(self.queries, 1),
            "distinct_nontrivial": self.nontrivial,
            "states_rule": "states = symbolic execution paths explored to their end (M) + CBMC properties decided (K); transitions = solver queries; "
                           "traces_validated_against_impl = counterexamples / known-finding witnesses replayed against the native build in this run",
            "rule": "one evaluation = one solver query (SMT check-sat, or one CBMC property decided inside a Kani harness); "
                    "an obligation counts as non-trivial when its reachability witness (kani::cover / precondition-sat query) is satisfiable, "
                    "i.e. the assertion is reached for some input inside the bound; obligations are distinct by id",
            "samples": (self.samples or [o for o in self.obligations])[:40],
            "obligations": n_ob,
            "discharged": held,
            "checker_cmd": "bin/check %s --tier %s" % (self.pid, self.tier),
            "trusted_base": self.trusted or ["rustc nightly MIR printer", "kani 0.68 / CBMC 6.11", "z3 5.1.0 (python3-vt)", "/verif/lib encoders"],
            "functions_encoded": self.functions,
            "bounds": self.bounds,
            "stubs_and_models": self.stubs,
            "solver_seconds": round(self.solver_seconds, 2),
            "covers_hit": self.covers_hit,
            "translator_validation_points": self.validated,
            "obligation_results": self.obligations,
            "engine": self.engine_note,
            "inconclusive": self.inconclusive,
            "known_findings_reported": [k.get("id") for k, _ in self.known_hits],
        }
        if extra_cov:
            cov.update(extra_cov)
        ev = {
            "property_id": self.pid, "tier": self.tier, "seed": self.seed, "level": "model_checking",
            "coverage": cov, "assumptions": self.assumptions or ["see coverage.stubs_and_models"],
            "wall_s": round(wall, 2), "violations": len(self.violations),
        }
        with open(os.path.join(EVIDENCE_DIR, self.pid + ".json"), "w") as f:
            json.dump(ev, f, indent=1, default=str)
        for k, what in self.known_hits:
            print("KNOWN-FINDING: property=%s %s" % (self.pid, what), flush=True)
        rp0 = os.path.join(EVIDENCE_DIR, self.pid + ".replay.json")
        if not self.violations and os.path.exists(rp0):
            os.remove(rp0)
        if self.violations:
            rp = os.path.join(EVIDENCE_DIR, self.pid + ".replay.json")
            with open(rp, "w") as f:
                json.dump(self.violations, f, indent=1, default=str)
            for v in self.violations:
                log("violation", json.dumps(v, default=str)[:600])
            print("VIOLATION property=%s replay=%s" % (self.pid, rp), flush=True)
            return EXIT_VIOLATION
        if self.inconclusive:
            print("INCONCLUSIVE property=%s obligations=%s" % (self.pid, ",".join(self.inconclusive)), flush=True)
            return EXIT_INCONCLUSIVE
        print("OK property=%s tier=%s obligations=%d queries=%d wall=%.1fs" % (self.pid, self.tier, n_ob, self.queries, wall), flush=True)
        return EXIT_OK


# --------------------------------------------------------------------------- K driver


def prepare_k_file(check, mirror, name):
    """Copy engines/k/<name> into the scratch dir with /*KNOWN:<obligation>*/ markers replaced by
    assume(!(predicate)) for every open known finding of that obligation (DESIGN §1.3)."""
    kdir = os.path.join(mirror.root, "k")
    os.makedirs(kdir, exist_ok=True)
    for f in os.listdir(os.path.join(VERIF, "engines/k")):
        if f.startswith("kstubs"):
            shutil.copy(os.path.join(VERIF, "engines/k", f), os.path.join(kdir, f))
    with open(os.path.join(VERIF, "engines/k", name)) as f:
        t = f.read()

    def sub(m):
        ks = check.known_for(m.group(1))
        return "".join("kani::assume(!(%s));" % k["predicate_rust"] for k in ks if k.get("predicate_rust"))

    t = re.sub(r"/\*KNOWN:(\w+)\*/", sub, t)
    dst = os.path.join(kdir, name)
    with open(dst, "w") as f:
        f.write(t)
    return dst


def run_k(check, mirror, crate, specs, par=6, rb=None):
    """specs: list of dict(harness, timeout, decode(vals)->dict, replay(inputs, rb)->(reproduced, text), extra)
    Runs the harnesses (par-wide, one Kani target dir per slot) and classifies every result."""
    import threading
    import queue as _q

    q = _q.Queue()
    for s in specs:
        q.put(s)
    results = {}

    def worker(slot):
        while True:
            try:
                s = q.get_nowait()
            except _q.Empty:
                return
            r = kani_run(mirror, crate, s["harness"], timeout=s.get("timeout", 300), playback=True,
                         extra=s.get("extra"), target_tag="%s-%s-%d" % (crate, "slot", slot))
            results[s["harness"]] = r

    ths = [threading.Thread(target=worker, args=(i,)) for i in range(min(par, len(specs)))]
    [t.start() for t in ths]
    [t.join() for t in ths]
    for s in specs:
        h = s["harness"]
        r = results[h]
        oid = "%s/K/%s" % (check.pid, h)
        for st in r.get("stubs", []):
            if st not in check.stubs:
                check.stubs.append("kani stub: " + st) if ("kani stub: " + st) not in check.stubs else None
        covers = {d: st for d, st in r["covers"].items() if not d.startswith("P: ")}
        # Kani de-duplicates playback tests with identical concrete values, so a counterexample may be
        # printed under another cover's header: every printed value set is a candidate; only those the
        # native replay confirms are reported.
        cex = list(r.get("playback") or [])
        detail = dict(kani_status=r["status"], cbmc_properties=r["checks"], covers=covers, cbmc_seconds=r["cbmc_seconds"],
                      unwind=s.get("unwind"), cmd=r["cmd"])
        nq = max(r["checks"], 1)
        if r["status"] == "SUCCESS":
            unsat = [d for d, st in covers.items() if st != "SATISFIED"]
            check.covers_hit += len(covers) - len(unsat)
            if unsat:
                detail["vacuous_covers"] = unsat
                check.add(oid, "inconclusive", "K", r["seconds"], detail, queries=nq)
                continue
            known = check.known_for(h)
            if known:
                for k in known:
                    ok, text = s["replay"](k["witness"], rb)
                    if ok:
                        check.known_hit(k, "%s %s" % (k["id"], text))
                detail["known_findings_excluded"] = [k["id"] for k in known]
                check.add(oid, "known", "K", r["seconds"], detail, queries=nq)
            else:
                check.add(oid, "holds", "K", r["seconds"], detail, queries=nq)
        elif r["status"] == "FAILURE":
            reproduced = []
            tried = []
            for p in cex:
                try:
                    inputs = s["decode"](p["vals"])
                except Exception as e:  # noqa
                    tried.append(dict(desc=p["desc"], error=str(e)))
                    continue
                ok, text = s["replay"](inputs, rb)
                check.replays += 1
                tried.append(dict(desc=p["desc"], inputs=inputs, reproduced=ok, native=text))
                if ok:
                    reproduced.append(dict(harness=h, failed=[c["desc"] for c in r["failed"]], inputs=inputs, native=text))
            detail["failed"] = [c["desc"] for c in r["failed"]]
            detail["counterexamples"] = tried
            if reproduced:
                check.add(oid, "violated", "K", r["seconds"], detail, queries=nq)
                for v in reproduced:
                    check.violation(oid, v)
            else:
                detail["note"] = "Kani reports a failure that the native replay does not reproduce (or no playback values): inconclusive"
                detail["tail"] = r["tail"][-800:]
                check.add(oid, "inconclusive", "K", r["seconds"], detail, queries=nq)
        else:
            detail["tail"] = r["tail"][-1200:]
            check.add(oid, "inconclusive", "K", r["seconds"], detail, queries=nq)
    return results


def dt_duration_ns(text):
    """nanoseconds denoted by a days-and-time duration text (ISO 8601 subset of FEEL), or None"""
    import re as _re
    m = _re.match(r"^(-)?P(?:(\d+)D)?(?:T(?:(\d+)H)?(?:(\d+)M)?(?:(\d+)(?:\.(\d*))?S)?)?$", text.strip())
    if not m or text.strip() in ("P", "-P", "PT", "-PT"):
        return None
    d, h, mi, s_, fr = (m.group(k) for k in (2, 3, 4, 5, 6))
    ns = (int(d or 0) * 86400 + int(h or 0) * 3600 + int(mi or 0) * 60 + int(s_ or 0)) * 10 ** 9
    if fr:
        ns += int((fr + "000000000")[:9])
    return -ns if m.group(1) else ns
