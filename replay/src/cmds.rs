use dmntk_feel::FeelDate;

fn i<T: std::str::FromStr>(s: &str) -> T
where
  T::Err: std::fmt::Debug,
{
  s.parse::<T>().unwrap()
}

pub fn dispatch(a: &[String]) -> String {
  match a[0].as_str() {
    "feel" => crate::feel_eval(None, &a[1]),
    "feelctx" => crate::feel_eval(Some(&a[1]), &a[2]),
    "jsonify" => {
      // jsonify <feel expression>: the JSON rendering of the value the expression evaluates to (what the server puts into "data")
      use dmntk_common::Jsonify;
      let scope = dmntk_feel::Scope::default();
      let node = dmntk_feel_parser::parse_expression(&scope, &a[1], false).unwrap();
      let v = dmntk_feel_evaluator::evaluate(&scope, &node).unwrap();
      // hex of the UTF-8 bytes: the line-oriented transport of this tool must not touch the text
      format!("JSON {}", v.jsonify().bytes().map(|b| format!("{:02x}", b)).collect::<String>())
    }
    "numpred" => {
      // numpred <feel expression>: the predicates of the number the expression evaluates to (whatever its representation)
      let scope = dmntk_feel::Scope::default();
      let node = dmntk_feel_parser::parse_expression(&scope, &a[1], false).unwrap();
      match dmntk_feel_evaluator::evaluate(&scope, &node).unwrap() {
        dmntk_feel::values::Value::Number(n) => format!(
          "value={} is_integer={} even={} odd={} is_one={} is_positive={} is_negative={}",
          n,
          n.is_integer(),
          n.even(),
          n.odd(),
          n.is_one(),
          n.is_positive(),
          n.is_negative()
        ),
        other => format!("NOT-A-NUMBER {}", other),
      }
    }
    "is_valid_date" => format!("{}", FeelDate::new_opt(i(&a[1]), i(&a[2]), i(&a[3])).is_some()),
    "ym_duration" => {
      let x = FeelDate::new(i(&a[1]), i(&a[2]), i(&a[3]));
      let y = FeelDate::new(i(&a[4]), i(&a[5]), i(&a[6]));
      format!("{}", x.ym_duration(&y).as_months())
    }
    "zone_display" => {
      // public face of FeelZone's Display: a time with that offset, zone suffix after hh:mm:ss
      let t = dmntk_feel::FeelTime::offset(0, 0, 0, 0, i(&a[1]));
      t.to_string()[8..].to_string()
    }
    "parse_cmp" => {
      // names bound in the parsing scope; which explicit grouping does the plain text parse to?
      let scope = dmntk_feel::Scope::default();
      for n in a[1].split(',') {
        scope.set_entry(&dmntk_feel::Name::from(n), dmntk_feel::values::Value::Null(None));
      }
      let p = |t: &str| dmntk_feel_parser::parse_expression(&scope, t, false).ok();
      match p(&a[2]) {
        None => "ERR".to_string(),
        Some(plain) => {
          let mut out = vec![];
          for (k, label) in [(3usize, "LEFT"), (4, "RIGHT"), (5, "ALT3"), (6, "ALT4"), (7, "ALT5")] {
            if a.len() > k {
              if let Some(t) = p(&a[k]) {
                if t == plain {
                  out.push(label);
                }
              }
            }
          }
          if out.is_empty() {
            format!("NEITHER {:?}", plain)
          } else {
            out.join("+")
          }
        }
      }
    }
    "parse_trace" => {
      let scope = dmntk_feel::Scope::default();
      for n in a[1].split(',') {
        scope.set_entry(&dmntk_feel::Name::from(n), dmntk_feel::values::Value::Null(None));
      }
      match dmntk_feel_parser::parse_expression(&scope, &a[2], false) {
        Ok(n) => format!("OK {:?}", n),
        Err(e) => format!("ERR {}", e),
      }
    }
    "type_rel" => {
      let t1 = parse_type(&mut a[1].chars().peekable());
      let t2 = parse_type(&mut a[2].chars().peekable());
      format!("equiv={} conf={}", t1.is_equivalent(&t2), t1.is_conformant(&t2))
    }
    "coerce" => {
      // coerce <type code> <feel expression>: value, its type, conformance to the target, coercion again
      let t = parse_type(&mut a[1].chars().peekable());
      let scope = dmntk_feel::Scope::default();
      let node = dmntk_feel_parser::parse_expression(&scope, &a[2], false).unwrap();
      let v = dmntk_feel_evaluator::evaluate(&scope, &node).unwrap();
      let c = t.coerced(&v);
      let again = t.coerced(&c);
      format!(
        "value={} coerced={} null={} conforms={} idempotent={}",
        v,
        c,
        c.is_null(),
        c.type_of().is_conformant(&t),
        format!("{}", again) == format!("{}", c)
      )
    }
    #[cfg(dmntk_verif_ws)]
    "workspace" => {
      // ops: add:<ns>:<name>:<builds> | replace:.. | remove:<ns>:<name> | clear | deploy ; prints every result and the final indexes
      let mut ws = dmntk_workspace::Workspace::new(None);
      let mut results = vec![];
      for op in &a[1..] {
        let p: Vec<&str> = op.split(':').collect();
        match p[0] {
          "add" | "replace" => {
            let body = if p[3] == "1" { "<literalExpression><text>1</text></literalExpression>" } else { "" };
            let xml = format!(
              r#"<?xml version="1.0" encoding="UTF-8"?><definitions namespace="ns{}" name="name{}" id="_m" xmlns="https://www.omg.org/spec/DMN/20191111/MODEL/"><decision name="d" id="_d"><variable name="d"/>{}</decision></definitions>"#,
              p[1], p[2], body
            );
            match dmntk_model::parse(&xml) {
              Ok(defs) => {
                let r = if p[0] == "add" { ws.add(defs) } else { ws.replace(defs) };
                results.push(if r.is_ok() { "ok" } else { "err" });
              }
              Err(_) => results.push("parse-error"),
            }
          }
          "remove" => {
            ws.remove(&format!("ns{}", p[1]), &format!("name{}", p[2]));
            results.push("ok");
          }
          "clear" => {
            ws.clear();
            results.push("ok");
          }
          "deploy" => {
            results.push(if ws.deploy().is_ok() { "ok" } else { "err" });
          }
          _ => results.push("?"),
        }
      }
      format!("results={} {}", results.join(","), ws.verif_dump())
    }
    #[cfg(dmntk_verif_lexer)]
    "lex_name" => dmntk_feel_parser::verif_lex_name(&a[1], a[2] == "1", &a[3..]),
    "names" => {
      // names <expr> <name>=<number> ...: the scope is built programmatically from (Name, Value) pairs (no lexer involved in the
      // binding; a name is given by its parts separated by the unit separator U+001F), then parse + evaluate
      let scope = dmntk_feel::Scope::default();
      let mut ctx = dmntk_feel::context::FeelContext::default();
      for b in &a[2..] {
        let (n, v) = b.rsplit_once('=').unwrap();
        let parts: Vec<String> = n.split('\u{1F}').map(|s| s.to_string()).collect();
        let name: dmntk_feel::Name = parts.into();
        ctx.set_entry(&name, dmntk_feel::values::Value::Number(v.parse::<dmntk_feel_number::FeelNumber>().unwrap()));
      }
      scope.push(ctx);
      match dmntk_feel_parser::parse_expression(&scope, &a[1], false) {
        Ok(node) => match dmntk_feel_evaluator::evaluate(&scope, &node) {
          Ok(v) => format!("VALUE {}", v),
          Err(e) => format!("EVAL-ERROR {}", e),
        },
        Err(e) => format!("PARSE-ERROR {}", e),
      }
    }
    "scope_after" => {
      // scope_after <context literal> <expr> [<expr2>]: rendering of the scope before and after parse + evaluate
      let scope = dmntk_feel::Scope::default();
      let ctx = dmntk_feel_evaluator::evaluate_context(&scope, &a[1]).unwrap();
      scope.push(ctx);
      let before = scope.to_string();
      let mut results = vec![];
      for e in &a[2..] {
        match dmntk_feel_parser::parse_expression(&scope, e, false) {
          Ok(node) => {
            let after_parse = scope.to_string();
            if after_parse != before {
              return format!("CHANGED by parse: {} -> {}", before, after_parse);
            }
            results.push(format!("{}", dmntk_feel_evaluator::evaluate(&scope, &node).unwrap()));
          }
          Err(err) => results.push(format!("parse error {}", err)),
        }
      }
      let after = scope.to_string();
      if after == before {
        format!("SAME {} results {}", after, results.join(" ; "))
      } else {
        format!("CHANGED {} -> {} results {}", before, after, results.join(" ; "))
      }
    }
    "xsd" => {
      // xsd <integer|decimal|double> <text>: typed input conversion, printed through Display
      let r = match a[1].as_str() {
        "integer" => dmntk_feel::values::Value::try_from_xsd_integer(&a[2]),
        "decimal" => dmntk_feel::values::Value::try_from_xsd_decimal(&a[2]),
        _ => dmntk_feel::values::Value::try_from_xsd_double(&a[2]),
      };
      match r {
        Ok(v) => format!("VALUE {}", v),
        Err(e) => format!("ERR {}", e),
      }
    }
    "number_display" => match a[1].parse::<dmntk_feel_number::FeelNumber>() {
      Ok(n) => n.to_string(),
      Err(e) => format!("ERR {}", e),
    },
    "stress_feel" => {
      // stress_feel <millis> <threads> <expr>...: every thread evaluates the expressions in a rotating order until the time is up;
      // each result is compared with the result of the same expression evaluated alone beforehand
      let millis: u64 = i(&a[1]);
      let threads: usize = i(&a[2]);
      // `--want <result>...` after the expressions: the result of each expression evaluated alone IN A PROCESS OF ITS OWN (a process-wide
      // cache filled by an earlier expression must not count as "alone"); without it the results are computed here, one after another
      let split = a[3..].iter().position(|x| x == "--want").map(|p| p + 3).unwrap_or(a.len());
      let exprs: std::sync::Arc<Vec<String>> = std::sync::Arc::new(a[3..split].to_vec());
      let want: std::sync::Arc<Vec<String>> = if split < a.len() {
        std::sync::Arc::new(a[split + 1..].to_vec())
      } else {
        std::sync::Arc::new(exprs.iter().map(|e| crate::feel_eval(None, e)).collect())
      };
      let deadline = std::time::Instant::now() + std::time::Duration::from_millis(millis);
      let mut handles = vec![];
      for t in 0..threads {
        let (exprs, want) = (exprs.clone(), want.clone());
        handles.push(std::thread::spawn(move || -> Result<u64, String> {
          let (mut k, mut n) = (t, 0u64);
          while std::time::Instant::now() < deadline {
            let j = k % exprs.len();
            let got = match std::panic::catch_unwind(|| crate::feel_eval(None, &exprs[j])) {
              Ok(v) => v,
              Err(_) => "PANIC".to_string(),
            };
            if got != want[j] {
              return Err(format!("MISMATCH {} -> {} under contention, {} alone", exprs[j], got, want[j]));
            }
            k += 1;
            n += 1;
          }
          Ok(n)
        }));
      }
      let mut total = 0;
      let mut bad = None;
      for h in handles {
        match h.join() {
          Ok(Ok(n)) => total += n,
          Ok(Err(e)) => bad = Some(e),
          Err(_) => bad = Some("PANIC in a worker thread".to_string()),
        }
      }
      bad.unwrap_or_else(|| format!("SAME {} evaluations", total))
    }
    "stress_model" => {
      // stress_model <millis> <threads> <xml> (<invocable> <input context>)...: one shared evaluator, every thread evaluates the
      // invocables in a rotating order; each result is compared with the result of the same call made alone beforehand
      let millis: u64 = i(&a[1]);
      let threads: usize = i(&a[2]);
      let defs = match dmntk_model::parse(&a[3]) {
        Ok(d) => d,
        Err(e) => return format!("PARSE-ERROR {}", e),
      };
      let me = match dmntk_model_evaluator::ModelEvaluator::new(&defs) {
        Ok(m) => m,
        Err(e) => return format!("BUILD-ERROR {}", e),
      };
      let calls: std::sync::Arc<Vec<(String, String)>> = std::sync::Arc::new(a[4..].chunks(2).map(|c| (c[0].clone(), c[1].clone())).collect());
      let eval = |me: &dmntk_model_evaluator::ModelEvaluator, c: &(String, String)| -> String {
        let scope = dmntk_feel::Scope::default();
        let input = dmntk_feel_evaluator::evaluate_context(&scope, &c.1).unwrap();
        format!("{}", me.evaluate_invocable(&c.0, &input))
      };
      let want: std::sync::Arc<Vec<String>> = std::sync::Arc::new(calls.iter().map(|c| eval(&me, c)).collect());
      let deadline = std::time::Instant::now() + std::time::Duration::from_millis(millis);
      let (tx, rx) = std::sync::mpsc::channel::<Result<u64, String>>();
      for t in 0..threads {
        let (calls, want, me, tx) = (calls.clone(), want.clone(), me.clone(), tx.clone());
        std::thread::spawn(move || {
          let (mut k, mut n) = (t, 0u64);
          while std::time::Instant::now() < deadline {
            let j = k % calls.len();
            let got = eval(&me, &calls[j]);
            if got != want[j] {
              let _ = tx.send(Err(format!("MISMATCH {}({}) -> {} under contention, {} alone", calls[j].0, calls[j].1, got, want[j])));
              return;
            }
            k += 1;
            n += 1;
          }
          let _ = tx.send(Ok(n));
        });
      }
      drop(tx);
      // a watchdog instead of join: a deadlocked worker never reports
      let mut total = 0;
      for _ in 0..threads {
        match rx.recv_timeout(std::time::Duration::from_millis(millis + 5000)) {
          Ok(Ok(n)) => total += n,
          Ok(Err(e)) => return e,
          Err(_) => return "DEADLOCK a worker did not finish within 5 s after the deadline".to_string(),
        }
      }
      format!("SAME {} evaluations", total)
    }
    "model_eval" => {
      // model_eval <xml> <invocable> <input context>: load, build, evaluate (panics are caught by the caller)
      match dmntk_model::parse(&a[1]) {
        Err(e) => format!("PARSE-ERROR {}", e),
        Ok(defs) => match dmntk_model_evaluator::ModelEvaluator::new(&defs) {
          Err(e) => format!("BUILD-ERROR {}", e),
          Ok(me) => {
            let scope = dmntk_feel::Scope::default();
            let input = dmntk_feel_evaluator::evaluate_context(&scope, &a[3]).unwrap();
            format!("VALUE {}", me.evaluate_invocable(&a[2], &input))
          }
        },
      }
    }
    "model_eval_seq" => {
      // model_eval_seq <xml> (<invocable> <input context>)...: ONE evaluator, the calls one after another; prints every value
      match dmntk_model::parse(&a[1]) {
        Err(e) => format!("PARSE-ERROR {}", e),
        Ok(defs) => match dmntk_model_evaluator::ModelEvaluator::new(&defs) {
          Err(e) => format!("BUILD-ERROR {}", e),
          Ok(me) => {
            let scope = dmntk_feel::Scope::default();
            let mut out = vec![];
            for c in a[2..].chunks(2) {
              let input = dmntk_feel_evaluator::evaluate_context(&scope, &c[1]).unwrap();
              out.push(format!("{}", me.evaluate_invocable(&c[0], &input)));
            }
            format!("VALUES {}", out.join(" | "))
          }
        },
      }
    }
    "unary_tests" => {
      // unary_tests <input expr> <tests>: evaluates `input in <tests>` the way decision tables do
      let scope = dmntk_feel::Scope::default();
      let input = dmntk_feel_parser::parse_expression(&scope, &a[1], false).unwrap();
      match dmntk_feel_parser::parse_unary_tests(&scope, &a[2], false) {
        Ok(tests) => {
          let node = dmntk_feel::AstNode::In(Box::new(input), Box::new(tests));
          match dmntk_feel_evaluator::evaluate(&scope, &node) {
            Ok(v) => format!("VALUE {}", v),
            Err(e) => format!("EVAL-ERROR {}", e),
          }
        }
        Err(e) => format!("PARSE-ERROR {}", e),
      }
    }
    _ => format!("UNKNOWN-COMMAND {}", a[0]),
  }
}


/// Type codes: A any, B boolean, D date, T date and time, Y days and time duration, U null, N number, S string, M time,
/// Z years and months duration, L(t) list, R(t) range, F(p,..;r) function, C(k:t,..) context.
pub fn parse_type(it: &mut std::iter::Peekable<std::str::Chars>) -> dmntk_feel::FeelType {
  use dmntk_feel::FeelType;
  let c = it.next().unwrap();
  match c {
    'A' => FeelType::Any,
    'B' => FeelType::Boolean,
    'D' => FeelType::Date,
    'T' => FeelType::DateTime,
    'Y' => FeelType::DaysAndTimeDuration,
    'U' => FeelType::Null,
    'N' => FeelType::Number,
    'S' => FeelType::String,
    'M' => FeelType::Time,
    'Z' => FeelType::YearsAndMonthsDuration,
    'L' | 'R' => {
      it.next();
      let inner = parse_type(it);
      it.next();
      if c == 'L' {
        FeelType::List(Box::new(inner))
      } else {
        FeelType::Range(Box::new(inner))
      }
    }
    'F' => {
      it.next();
      let mut params = vec![];
      while *it.peek().unwrap() != ';' {
        params.push(parse_type(it));
        if *it.peek().unwrap() == ',' {
          it.next();
        }
      }
      it.next();
      let result = parse_type(it);
      it.next();
      FeelType::Function(params, Box::new(result))
    }
    'C' => {
      it.next();
      let mut entries = std::collections::BTreeMap::new();
      while *it.peek().unwrap() != ')' {
        let mut key = String::new();
        while *it.peek().unwrap() != ':' {
          key.push(it.next().unwrap());
        }
        it.next();
        entries.insert(dmntk_feel::Name::from(key.as_str()), parse_type(it));
        if *it.peek().unwrap() == ',' {
          it.next();
        }
      }
      it.next();
      FeelType::Context(entries)
    }
    other => panic!("bad type code {}", other),
  }
}
