use dmntk_feel::FeelDate;

fn i<T: std::str::FromStr>(s: &str) -> T
where
  T::Err: std::fmt::Debug,
{
  s.parse::<T>().unwrap()
}

pub fn dispatch(a: &[String]) -> String {
  match a[0].as_str() {
    "feel" => crate::feel_eval(None, &a[1]),
    "feelctx" => crate::feel_eval(Some(&a[1]), &a[2]),
    "is_valid_date" => format!("{}", FeelDate::new_opt(i(&a[1]), i(&a[2]), i(&a[3])).is_some()),
    "ym_duration" => {
      let x = FeelDate::new(i(&a[1]), i(&a[2]), i(&a[3]));
      let y = FeelDate::new(i(&a[4]), i(&a[5]), i(&a[6]));
      format!("{}", x.ym_duration(&y).as_months())
    }
    "zone_display" => {
      // public face of FeelZone's Display: a time with that offset, zone suffix after hh:mm:ss
      let t = dmntk_feel::FeelTime::offset(0, 0, 0, 0, i(&a[1]));
      t.to_string()[8..].to_string()
    }
    "parse_cmp" => {
      // names bound in the parsing scope; which explicit grouping does the plain text parse to?
      let scope = dmntk_feel::Scope::default();
      for n in a[1].split(',') {
        scope.set_entry(&dmntk_feel::Name::from(n), dmntk_feel::values::Value::Null(None));
      }
      let p = |t: &str| dmntk_feel_parser::parse_expression(&scope, t, false).ok();
      match p(&a[2]) {
        None => "ERR".to_string(),
        Some(plain) => {
          let mut out = vec![];
          for (k, label) in [(3usize, "LEFT"), (4, "RIGHT"), (5, "ALT3"), (6, "ALT4"), (7, "ALT5")] {
            if a.len() > k {
              if let Some(t) = p(&a[k]) {
                if t == plain {
                  out.push(label);
                }
              }
            }
          }
          if out.is_empty() {
            format!("NEITHER {:?}", plain)
          } else {
            out.join("+")
          }
        }
      }
    }
    "parse_trace" => {
      let scope = dmntk_feel::Scope::default();
      for n in a[1].split(',') {
        scope.set_entry(&dmntk_feel::Name::from(n), dmntk_feel::values::Value::Null(None));
      }
      match dmntk_feel_parser::parse_expression(&scope, &a[2], false) {
        Ok(n) => format!("OK {:?}", n),
        Err(e) => format!("ERR {}", e),
      }
    }
    _ => format!("UNKNOWN-COMMAND {}", a[0]),
  }
}
