use dmntk_feel::FeelDate;

fn i<T: std::str::FromStr>(s: &str) -> T
where
  T::Err: std::fmt::Debug,
{
  s.parse::<T>().unwrap()
}

pub fn dispatch(a: &[String]) -> String {
  match a[0].as_str() {
    "feel" => crate::feel_eval(None, &a[1]),
    "feelctx" => crate::feel_eval(Some(&a[1]), &a[2]),
    "is_valid_date" => format!("{}", FeelDate::new_opt(i(&a[1]), i(&a[2]), i(&a[3])).is_some()),
    "ym_duration" => {
      let x = FeelDate::new(i(&a[1]), i(&a[2]), i(&a[3]));
      let y = FeelDate::new(i(&a[4]), i(&a[5]), i(&a[6]));
      format!("{}", x.ym_duration(&y).as_months())
    }
    "zone_display" => {
      // public face of FeelZone's Display: a time with that offset, zone suffix after hh:mm:ss
      let t = dmntk_feel::FeelTime::offset(0, 0, 0, 0, i(&a[1]));
      t.to_string()[8..].to_string()
    }
    _ => format!("UNKNOWN-COMMAND {}", a[0]),
  }
}
