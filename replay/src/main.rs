//! Native replay of solver counterexamples and translation-validation points against an
//! ordinary build of the working tree (real decNumber, regex, chrono; no stubs).
//! One request per stdin line (tab separated), one answer per stdout line.
use dmntk_feel::Scope;
use std::io::BufRead;
use std::panic;

mod cmds;

fn main() {
  panic::set_hook(Box::new(|_| {}));
  let args: Vec<String> = std::env::args().skip(1).collect();
  if !args.is_empty() {
    println!("{}", guarded(&args));
    return;
  }
  let stdin = std::io::stdin();
  for line in stdin.lock().lines() {
    let line = line.unwrap();
    let args: Vec<String> = line.split('\t').map(|s| s.to_string()).collect();
    println!("{}", guarded(&args));
  }
}

fn guarded(args: &[String]) -> String {
  let a = args.to_vec();
  match panic::catch_unwind(move || cmds::dispatch(&a)) {
    Ok(s) => s.replace('\n', "\\n"),
    Err(e) => {
      let msg = if let Some(s) = e.downcast_ref::<String>() {
        s.clone()
      } else if let Some(s) = e.downcast_ref::<&str>() {
        s.to_string()
      } else {
        "?".to_string()
      };
      format!("PANIC {}", msg.replace('\n', " "))
    }
  }
}

pub fn feel_eval(ctx: Option<&str>, text: &str) -> String {
  let scope = Scope::default();
  if let Some(c) = ctx {
    match dmntk_feel_evaluator::evaluate_context(&scope, c) {
      Ok(fc) => scope.push(fc),
      Err(e) => return format!("CTX-ERROR {}", e),
    }
  }
  match dmntk_feel_parser::parse_expression(&scope, text, false) {
    Ok(node) => match dmntk_feel_evaluator::evaluate(&scope, &node) {
      Ok(v) => format!("VALUE {}", v),
      Err(e) => format!("EVAL-ERROR {}", e),
    },
    Err(e) => format!("PARSE-ERROR {}", e),
  }
}
