//! Native replay of the server's request workers (private functions of dmntk-server reached through an injected shim).
//! One request per invocation: dmntk-replay-server ops <op>...   (see engines/shims/server_ops.rs)
fn main() {
  std::panic::set_hook(Box::new(|_| {}));
  let args: Vec<String> = std::env::args().skip(1).collect();
  let r = std::panic::catch_unwind(move || match args.first().map(|s| s.as_str()) {
    Some("ops") => dmntk_server::verif_server_ops(&args[1..]),
    Some("tck") => dmntk_server::verif_tck(&args[1]),
    _ => "?".to_string(),
  });
  match r {
    Ok(s) => println!("{}", s.replace('\n', "\\n")),
    Err(_) => println!("PANIC"),
  }
}
